// c10_scen.h - scenario construction and the remaining scenario families of t_c10, plus the fault-plan driver.
#pragma once

static const uint8_t NOTHING[1] = {0};

// encode `plain` fault-free (malloc) with a streaming encoder
static std::vector<uint8_t> enc_with(std::function<lzma_ret(lzma_stream *)> init, const std::vector<uint8_t> &plain, lzma_action fin = LZMA_FINISH) {
	lzma_stream s = LZMA_STREAM_INIT; lzma_ret ir = init(&s); if (ir != LZMA_OK) harness_bug("prep: encoder init %s", drv::retname(ir));
	drv::Opts o; o.final_action = fin; o.idle_limit = 100000; drv::Result R = drv::run(&s, plain.data(), plain.size(), drv::Schedule(), o); lzma_end(&s);
	if (R.ret != LZMA_STREAM_END) harness_bug("prep: encoder returned %s", drv::retname(R.ret));
	return R.out;
}

static lzma_index *make_index(Case &c, unsigned n, const lzma_allocator *al) {
	lzma_index *i = lzma_index_init(al); if (!i) return NULL;
	for (unsigned k = 0; k < n; ++k) if (lzma_index_append(i, al, 5 + (k * 37 + c.u(8)) % 4000, (k * 101) % 70000) != LZMA_OK) { lzma_index_end(i, al); return NULL; }
	return i;
}

// Decide everything about a coder from the case bytes and prepare its input
static void make_coder(Case &c, Coder &k, int kind) {
	k.kind = kind; k.check = c.pick({LZMA_CHECK_CRC32, LZMA_CHECK_CRC64, LZMA_CHECK_SHA256, LZMA_CHECK_NONE});
	k.preset = c.u(2); k.threads = 2; k.block_size = 4096;
	bool mt = kind == CK_ENC_MT || kind == CK_DEC_MT;
	Recipe r; r.kind = c.pick({RK_TEXT, RK_RANDOM, RK_CONST, RK_COPY_EDITS}); r.seed = c.u16(); r.alpha = 16; r.period = 9;
	r.len = mt ? 9000 + c.u(4000) : c.pick<uint32_t>({0, 1, 50, 300, 1500, 5000});
	k.plain = expand(r);
	bool raw = kind == CK_ENC_RAW || kind == CK_DEC_RAW, alone = kind == CK_ENC_ALONE || kind == CK_DEC_ALONE || kind == CK_ENC_MICRO || kind == CK_DEC_MICRO || kind == CK_DEC_LZIP;
	unsigned ck = c.u(4); if (raw && c.flag()) ck = 4 + c.u(2); if (alone) ck = 4;
	k.ch.make(ck, kind == CK_DEC_LZIP ? 0 : c.u(4));
	k.sch = c.flag() ? drv::Schedule() : drv::draw_schedule(c, true);
	if (k.sch.pieces.size() > 8) k.sch.pieces.resize(8);
	if (k.sch.tail_in == 1 && k.sch.tail_out == 1) { k.sch.tail_in = 7; k.sch.tail_out = 5; }   // byte-at-a-time multiplies the cost of every inner run
	Chain &ch = k.ch;
	switch (kind) {
	case CK_ENC_EASY: case CK_ENC_STREAM: case CK_ENC_MT: case CK_ENC_ALONE: case CK_ENC_RAW: k.input = k.plain; break;
	case CK_ENC_BLOCK: case CK_DEC_BLOCK: {
		memset(&k.blk, 0, sizeof k.blk); k.blk.version = 1; k.blk.check = k.check; k.blk.filters = ch.f; k.blk.compressed_size = LZMA_VLI_UNKNOWN; k.blk.uncompressed_size = LZMA_VLI_UNKNOWN;
		if (lzma_block_header_size(&k.blk) != LZMA_OK) harness_bug("prep: block header size");
		k.blk_header.assign(k.blk.header_size, 0); if (lzma_block_header_encode(&k.blk, k.blk_header.data()) != LZMA_OK) harness_bug("prep: block header encode");
		if (kind == CK_ENC_BLOCK) { k.input = k.plain; break; }
		lzma_block *bp = &k.blk; k.input = enc_with([bp](lzma_stream *s) { return lzma_block_encoder(s, bp); }, k.plain);
		// the decoder gets a fresh lzma_block as lzma_block_header_decode would leave it, but with the caller's chain
		k.blk.compressed_size = LZMA_VLI_UNKNOWN; k.blk.uncompressed_size = LZMA_VLI_UNKNOWN; break; }
	case CK_ENC_MICRO: k.input = k.plain.empty() ? std::vector<uint8_t>(3, 'x') : k.plain; k.plain = k.input; k.micro_comp = 40 + c.u(3000); break;
	case CK_ENC_INDEX: k.src_index = make_index(c, c.pick<unsigned>({0, 1, 3, 600}), NULL); if (!k.src_index) harness_bug("prep: index"); k.src_index_digest = index_digest(k.src_index); break;
	case CK_DEC_STREAM: case CK_DEC_AUTO: { lzma_filter *f = ch.f; lzma_check chk = k.check; k.input = enc_with([f, chk](lzma_stream *s) { return lzma_stream_encoder(s, f, chk); }, k.plain);
		if (kind == CK_DEC_STREAM && c.flag()) { std::vector<uint8_t> two = k.input; two.insert(two.end(), 8, 0); two.insert(two.end(), k.input.begin(), k.input.end()); k.input.swap(two); } break; }
	case CK_DEC_MT: { lzma_mt m; memset(&m, 0, sizeof m); m.threads = 1; m.block_size = 3000; m.filters = ch.f; m.check = k.check; k.input = enc_with([m](lzma_stream *s) { return lzma_stream_encoder_mt(s, &m); }, k.plain); break; }
	case CK_DEC_ALONE: { lzma_options_lzma *o = &ch.lz; k.input = enc_with([o](lzma_stream *s) { return lzma_alone_encoder(s, o); }, k.plain); break; }
	case CK_DEC_RAW: { lzma_filter *f = ch.f; k.input = enc_with([f](lzma_stream *s) { return lzma_raw_encoder(s, f); }, k.plain); break; }
	case CK_DEC_LZIP: { lzma_filter *f = ch.f; std::vector<uint8_t> body = enc_with([f](lzma_stream *s) { return lzma_raw_encoder(s, f); }, k.plain);
		static const uint8_t hd[6] = {'L', 'Z', 'I', 'P', 1, 12}; k.input.assign(hd, hd + 6); k.input.insert(k.input.end(), body.begin(), body.end());
		uint8_t tr[20]; uint32_t crc = ref::crc32_fast(k.plain.data(), k.plain.size()); uint64_t ds = k.plain.size(), ms = 6 + body.size() + 20;
		for (int i = 0; i < 4; ++i) tr[i] = (uint8_t)(crc >> (8 * i)); for (int i = 0; i < 8; ++i) { tr[4 + i] = (uint8_t)(ds >> (8 * i)); tr[12 + i] = (uint8_t)(ms >> (8 * i)); }
		k.input.insert(k.input.end(), tr, tr + 20); break; }
	case CK_DEC_MICRO: { if (k.plain.empty()) k.plain.assign(3, 'x');
		lzma_stream s = LZMA_STREAM_INIT; if (lzma_microlzma_encoder(&s, &ch.lz) != LZMA_OK) harness_bug("prep: microlzma"); std::vector<uint8_t> out(k.plain.size() * 2 + 64);
		s.next_in = k.plain.data(); s.avail_in = k.plain.size(); s.next_out = out.data(); s.avail_out = out.size(); lzma_ret er = lzma_code(&s, LZMA_FINISH);
		if (er != LZMA_STREAM_END) harness_bug("prep: microlzma encode %s", drv::retname(er)); k.micro_comp = s.total_out; k.micro_uncomp = s.total_in; out.resize(s.total_out); lzma_end(&s); k.input.swap(out); k.plain.resize((size_t)k.micro_uncomp); break; }
	case CK_DEC_INDEX: { lzma_index *i = make_index(c, c.pick<unsigned>({0, 1, 3, 600}), NULL); if (!i) harness_bug("prep: index"); k.input.resize((size_t)lzma_index_size(i)); size_t p = 0;
		if (lzma_index_buffer_encode(i, k.input.data(), &p, k.input.size()) != LZMA_OK) harness_bug("prep: index encode"); lzma_index_end(i, NULL); break; }
	case CK_DEC_FILEINFO: { lzma_filter *f = ch.f; lzma_check chk = k.check; unsigned ns = 1 + c.u(3);
		for (unsigned q = 0; q < ns; ++q) { std::vector<uint8_t> one = enc_with([f, chk](lzma_stream *s) { return lzma_stream_encoder(s, f, chk); }, k.plain, LZMA_FINISH); k.input.insert(k.input.end(), one.begin(), one.end()); k.input.insert(k.input.end(), 4 * c.u(3), 0); } break; }
	default: harness_bug("make_coder");
	}
	if (k.ch.bytes() != k.ch.snap) harness_bug("prep modified the chain");
}
static std::string coder_desc(const Coder &k) { return std::string("{\"coder\":\"") + ck_names[k.kind] + "\",\"chain_filters\":" + std::to_string(k.ch.n) + ",\"plain\":" + std::to_string(k.plain.size()) + ",\"input\":" + std::to_string(k.input.size()) + ",\"check\":" + std::to_string((int)k.check) + ",\"schedule\":" + k.sch.describe() + "}"; }
static uint64_t coder_hash(const Coder &k) { uint64_t h = hcomb(k.kind, k.ch.n * 16 + (unsigned)k.check); h = hcomb(h, hash_bytes(k.ch.snap.data(), k.ch.snap.size())); h = hcomb(h, k.input.empty() ? 7 : hash_bytes(k.input.data(), k.input.size())); return hcomb(h, k.sch.hash()); }

// ---- re-use of one lzma_stream for several coders without lzma_end -------------------------------------------------------------
struct ReuseSpec { std::vector<std::unique_ptr<Coder>> coders; std::vector<uint8_t> how; /* 0: init only, 1: code part of the input, 2: code everything */ bool end_between_failures = false; };
static void scen_reuse(Run &r, ReuseSpec &S) {
	lzma_stream s = LZMA_STREAM_INIT; s.allocator = &r.al.a;
	uint64_t foreign = 0;   // decoded indexes that the scenario still owns
	std::vector<lzma_index *> owned;
	for (size_t q = 0; q < S.coders.size(); ++q) {
		Coder &c = *S.coders[q];
		if (q && c.kind == CK_ENC_MT && S.coders[q - 1]->kind == CK_ENC_MT && known_finding(SIG_MT_STALE)) lzma_end(&s);   // exclusion by construction (see scen_coder)
		// a failed initialisation ends the handle: nothing of the previous coder remains either
		coder_init_retry(r, &s, c, foreign, S.end_between_failures ? 1 : 0);
		if (S.how[q] == 0) { if (c.kind == CK_DEC_INDEX || c.kind == CK_DEC_FILEINFO) c.out_index = nullptr; continue; }
		drv::Result R = coder_code(&s, c, S.how[q] == 1 ? c.input.size() / 2 : SIZE_MAX);
		coder_check_owned(r, c, "lzma_code");
		const bool recorded = S.how[q] == 2 || c.kind == CK_DEC_FILEINFO || c.kind == CK_ENC_MICRO;
		if (R.ret == LZMA_MEM_ERROR) { r.memfail("lzma_code"); if ((c.kind == CK_DEC_INDEX || c.kind == CK_DEC_FILEINFO) && idx_real(c.out_index)) violation("C10:output-on-failure", "%s: *index points to an index after LZMA_MEM_ERROR", r.where("lzma_code").c_str()); c.out_index = nullptr; if (recorded) r.skip("lzma_code"); continue; }   // just go on with the next coder on the same handle
		if (recorded) r.result("lzma_code", coder_value(c, R));
		if ((c.kind == CK_DEC_INDEX || c.kind == CK_DEC_FILEINFO) && idx_real(c.out_index) && R.ret == LZMA_STREAM_END) { owned.push_back(c.out_index); }
		c.out_index = nullptr;
		foreign = 0; // recomputed below
		// bytes of the indexes we own: measured as the difference once the handle is ended; here only tracked as pointers
		if (!owned.empty()) { /* a later failed init must leave exactly the owned indexes: learn their size by ending the handle now */ lzma_end(&s); foreign = r.al.live_bytes; }
	}
	lzma_end(&s);
	for (lzma_index *i : owned) lzma_index_end(i, &r.al.a);
	r.expect_live("lzma_end", 0, "after lzma_end (and freeing the decoded indexes) everything is returned");
}

// ---- single-call buffer functions ------------------------------------------------------------------------------------------------
struct BufSpec { unsigned fn = 0; Chain ch; lzma_check check = LZMA_CHECK_CRC32; uint32_t preset = 0; std::vector<uint8_t> plain, enc; lzma_block blk; size_t hdr = 0; BufSpec() { memset(&blk, 0, sizeof blk); } BufSpec(const BufSpec &) = delete; };
static const char *buf_names[] = {"lzma_easy_buffer_encode", "lzma_stream_buffer_encode", "lzma_block_buffer_encode", "lzma_raw_buffer_encode", "lzma_stream_buffer_decode", "lzma_block_buffer_decode", "lzma_raw_buffer_decode", "lzma_index_buffer_decode", "lzma_block_header_decode+lzma_block_buffer_decode"};
static void scen_buffer(Run &r, BufSpec &B) {
	const lzma_allocator *al = &r.al.a; const char *api = buf_names[B.fn];
	const uint8_t *ip = B.plain.empty() ? NOTHING : B.plain.data();
	bool hdr_recorded = false;
	for (unsigned t = 0;; ++t) {
		std::vector<uint8_t> out(B.fn < 4 ? B.plain.size() * 2 + 4096 : B.plain.size() + 64, 0xEE); size_t op = 3, ipos = 0; lzma_ret ret = LZMA_PROG_ERROR; uint64_t v = 0; uint64_t ml = UINT64_MAX;
		lzma_block blk = B.blk; lzma_filter hf[LZMA_FILTERS_MAX + 1]; lzma_index *idx = (lzma_index *)(uintptr_t)8;
		switch (B.fn) {
		case 0: ret = lzma_easy_buffer_encode(B.preset, B.check, al, ip, B.plain.size(), out.data(), &op, out.size()); break;
		case 1: ret = lzma_stream_buffer_encode(B.ch.f, B.check, al, ip, B.plain.size(), out.data(), &op, out.size()); break;
		case 2: blk.filters = B.ch.f; ret = lzma_block_buffer_encode(&blk, al, ip, B.plain.size(), out.data(), &op, out.size()); v = hcomb(blk.compressed_size, blk.uncompressed_size); break;
		case 3: ret = lzma_raw_buffer_encode(B.ch.f, al, ip, B.plain.size(), out.data(), &op, out.size()); break;
		case 4: ret = lzma_stream_buffer_decode(&ml, 0, al, B.enc.data(), &ipos, B.enc.size(), out.data(), &op, out.size()); break;
		case 5: blk.filters = B.ch.f; ipos = B.hdr; ret = lzma_block_buffer_decode(&blk, al, B.enc.data(), &ipos, B.enc.size(), out.data(), &op, out.size()); break;
		case 6: ret = lzma_raw_buffer_decode(B.ch.f, al, B.enc.data(), &ipos, B.enc.size(), out.data(), &op, out.size()); break;
		case 7: ret = lzma_index_buffer_decode(&idx, &ml, al, B.enc.data(), &ipos, B.enc.size()); break;
		default: { // the filter array comes from lzma_block_header_decode (allocator-owned options)
			memset(&blk, 0, sizeof blk); blk.version = 1; blk.check = B.check; blk.filters = hf; blk.header_size = (uint32_t)B.hdr;
			ret = lzma_block_header_decode(&blk, al, B.enc.data());
			if (ret == LZMA_MEM_ERROR) { r.memfail("lzma_block_header_decode"); r.expect_live("lzma_block_header_decode", 0, "a failed lzma_block_header_decode frees the options it allocated"); r.next_try(t, api); continue; }
			if (!hdr_recorded) { r.result("lzma_block_header_decode", hcomb((uint64_t)ret, hcomb(blk.compressed_size, blk.uncompressed_size))); hdr_recorded = true; }
			ipos = B.hdr; ret = lzma_block_buffer_decode(&blk, al, B.enc.data(), &ipos, B.enc.size(), out.data(), &op, out.size());
			lzma_filters_free(hf, al); break; }
		}
		B.ch.check_unchanged(r, api);
		if (ret == LZMA_MEM_ERROR) {
			r.memfail(api);
			if (B.fn == 7) { if (idx != NULL) violation("C10:output-on-failure", "%s: *i is not NULL after LZMA_MEM_ERROR", r.where(api).c_str()); }
			if (op != 3 || ipos != (B.fn == 5 || B.fn == 8 ? B.hdr : 0)) violation("C10:position-advanced-on-failure", "%s: LZMA_MEM_ERROR but *in_pos = %zu, *out_pos = %zu (documented: updated only on success)", r.where(api).c_str(), ipos, op);
			if (ml != UINT64_MAX) violation("C10:caller-object-modified", "%s: *memlimit modified although the error is not LZMA_MEMLIMIT_ERROR", r.where(api).c_str());
			r.expect_live(api, 0, "single-call function returned");
			r.next_try(t, api); continue;
		}
		if (B.fn == 7) { v = index_digest(ret == LZMA_OK ? idx : NULL); if (ret == LZMA_OK) lzma_index_end(idx, al); }
		v = hcomb(v, hcomb((uint64_t)ret, hcomb(op, ipos))); if (op > 3) v = hcomb(v, hash_bytes(out.data() + 3, op - 3));
		r.result(api, v);
		if (ret != LZMA_OK) harness_bug("%s: %s in a fault-free-equivalent run", api, drv::retname(ret));
		r.expect_live(api, 0, "single-call function returned");
		return;
	}
}

// ---- lzma_index manipulation --------------------------------------------------------------------------------------------------------
struct IndexSpec { unsigned na = 0, nb = 0, nc = 0; bool flags_a = true, dup_first = false, enc_dec = true; uint32_t pad = 0; uint32_t salt = 0; };
static void scen_index(Run &r, const IndexSpec &S) {
	const lzma_allocator *al = &r.al.a;
	auto init = [&](const char *tag) -> lzma_index * { for (unsigned t = 0;; ++t) { uint64_t live0 = r.al.live_bytes; lzma_index *i = lzma_index_init(al); if (i) { r.result("lzma_index_init", 1); return i; } r.memfail("lzma_index_init"); r.expect_live("lzma_index_init", live0, "failed lzma_index_init"); r.next_try(t, tag); } };
	auto append = [&](lzma_index *i, unsigned n, unsigned salt) { for (unsigned k = 0; k < n; ++k) for (unsigned t = 0;; ++t) {
		uint64_t d0 = index_digest(i), live0 = r.al.live_bytes; lzma_ret q = lzma_index_append(i, al, 5 + (k * 37 + salt) % 4000, (k * 101 + salt) % 70000);
		if (q != LZMA_MEM_ERROR) { if (k < 3 || k + 2 >= n || (k % 257) == 0) r.result("lzma_index_append", hcomb((uint64_t)q, index_digest(i))); else if (q != LZMA_OK) harness_bug("append"); break; }
		r.memfail("lzma_index_append"); if (index_digest(i) != d0) violation("C10:caller-object-modified", "%s: the index changed although lzma_index_append failed", r.where("lzma_index_append").c_str());
		r.expect_live("lzma_index_append", live0, "failed lzma_index_append"); r.next_try(t, "lzma_index_append"); } };
	lzma_index *a = init("a"); append(a, S.na, S.salt);
	if (S.flags_a) { lzma_stream_flags sf; memset(&sf, 0, sizeof sf); sf.version = 0; sf.check = LZMA_CHECK_SHA256; sf.backward_size = LZMA_BACKWARD_SIZE_MIN; r.result("lzma_index_stream_flags", lzma_index_stream_flags(a, &sf)); r.result("lzma_index_stream_padding", lzma_index_stream_padding(a, S.pad)); }
	lzma_index *b = init("b"); append(b, S.nb, S.salt + 11);
	lzma_index *d = NULL;
	auto dup = [&](lzma_index *src) -> lzma_index * { for (unsigned t = 0;; ++t) { uint64_t d0 = index_digest(src), live0 = r.al.live_bytes; lzma_index *x = lzma_index_dup(src, al);
		if (index_digest(src) != d0) violation("C10:caller-object-modified", "%s: lzma_index_dup changed its source", r.where("lzma_index_dup").c_str());
		if (x) { r.result("lzma_index_dup", index_digest(x)); if (index_digest(x) != d0) violation("C13:index-dup", "%s: the duplicate differs from the original", r.where("lzma_index_dup").c_str()); return x; }
		r.memfail("lzma_index_dup"); r.expect_live("lzma_index_dup", live0, "failed lzma_index_dup"); r.next_try(t, "lzma_index_dup"); } };
	auto cat = [&](lzma_index *dst, lzma_index *src) { for (unsigned t = 0;; ++t) { uint64_t d0 = index_digest(dst), s0 = index_digest(src), live0 = r.al.live_bytes; lzma_ret q = lzma_index_cat(dst, src, al);
		if (q != LZMA_MEM_ERROR) { r.result("lzma_index_cat", hcomb((uint64_t)q, index_digest(dst))); if (q != LZMA_OK) harness_bug("cat: %s", drv::retname(q)); return; }
		r.memfail("lzma_index_cat");
		if (index_digest(dst) != d0 || index_digest(src) != s0) violation("C10:caller-object-modified", "%s: lzma_index_cat failed but %s changed", r.where("lzma_index_cat").c_str(), index_digest(dst) != d0 ? "dest" : "src");
		r.expect_live("lzma_index_cat", live0, "failed lzma_index_cat"); r.next_try(t, "lzma_index_cat"); } };
	if (S.dup_first) d = dup(a);
	cat(a, b); b = NULL;
	if (!S.dup_first) d = dup(a);
	// more Blocks after the concatenation (appends go to the last Stream)
	append(a, S.nc, S.salt + 5);
	if (S.enc_dec) {
		// encode with the streaming encoder, decode with the streaming decoder, concatenate the result
		Coder e; e.kind = CK_ENC_INDEX; e.src_index = a; e.src_index_digest = index_digest(a); e.ch.make(0);
		lzma_stream s = LZMA_STREAM_INIT; s.allocator = al; const uint64_t foreign = r.al.live_bytes;
		coder_init_retry(r, &s, e, foreign, 0);
		drv::Result R = coder_code(&s, e);
		if (R.ret == LZMA_MEM_ERROR) { r.memfail("lzma_code"); r.al.plan_none(); if (coder_init(&s, e) != LZMA_OK) violation("C10:handle-unusable-after-failure", "index encoder re-init"); R = coder_code(&s, e); }
		coder_check_owned(r, e, "lzma_code");
		r.result("lzma_code(index_encoder)", hash_result(R));
		e.src_index = nullptr;
		Coder dc; dc.kind = CK_DEC_INDEX; dc.input = R.out; dc.ch.make(0);
		coder_init_retry(r, &s, dc, foreign, 1);   // same handle, no lzma_end in between
		drv::Result D = coder_code(&s, dc);
		if (D.ret == LZMA_MEM_ERROR) { r.memfail("lzma_code"); if (idx_real(dc.out_index)) violation("C10:output-on-failure", "index decoder: *i set on LZMA_MEM_ERROR"); r.al.plan_none(); if (coder_init(&s, dc) != LZMA_OK) violation("C10:handle-unusable-after-failure", "index decoder re-init"); D = coder_code(&s, dc); }
		r.result("lzma_code(index_decoder)", coder_value(dc, D));
		lzma_end(&s);
		lzma_index *cidx = dc.out_index; dc.out_index = nullptr;
		if (!cidx) harness_bug("index decoder gave no index: %s", drv::retname(D.ret));
		cat(d, cidx);
	}
	r.result("final_a", index_digest(a)); r.result("final_d", index_digest(d));
	lzma_index_end(a, al); lzma_index_end(d, al);
	r.expect_live("lzma_index_end", 0, "all indexes ended");
}

// ---- filter-chain functions --------------------------------------------------------------------------------------------------------
struct FilterSpec { Chain ch; std::string str; uint32_t str_flags = 0, from_flags = 0, list_flags = 0; lzma_vli list_id = LZMA_VLI_UNKNOWN; std::vector<uint8_t> props; lzma_vli props_id = LZMA_FILTER_LZMA2; std::vector<uint8_t> fflags; std::vector<uint8_t> bhdr; lzma_check check = LZMA_CHECK_CRC32; FilterSpec() {} FilterSpec(const FilterSpec &) = delete; };
static uint64_t filters_value(const lzma_filter *f, bool decoder_only = false) {
	uint64_t h = 1; for (unsigned i = 0; i <= LZMA_FILTERS_MAX; ++i) { h = hcomb(h, f[i].id); if (f[i].id == LZMA_VLI_UNKNOWN) break;
		if (!f[i].options) { h = hcomb(h, 0); continue; }
		if (f[i].id == LZMA_FILTER_DELTA) { auto *o = (const lzma_options_delta *)f[i].options; h = hcomb(h, hcomb(o->type, o->dist)); }
		else if (f[i].id == LZMA_FILTER_LZMA1 || f[i].id == LZMA_FILTER_LZMA2 || f[i].id == LZMA_FILTER_LZMA1EXT) { auto *o = (const lzma_options_lzma *)f[i].options; h = hcomb(h, hcomb(hcomb(o->dict_size, o->lc), hcomb(o->lp, o->pb))); if (!decoder_only) { uint64_t a[] = {(uint64_t)o->mode, o->nice_len, (uint64_t)o->mf, o->depth}; for (uint64_t x : a) h = hcomb(h, x); } }
		else { auto *o = (const lzma_options_bcj *)f[i].options; h = hcomb(h, o->start_offset); } }
	return h;
}
static void scen_filters(Run &r, FilterSpec &S) {
	const lzma_allocator *al = &r.al.a;
	lzma_filter sentinel[LZMA_FILTERS_MAX + 1]; memset(sentinel, 0x5C, sizeof sentinel);
	// lzma_filters_copy
	lzma_filter dest[LZMA_FILTERS_MAX + 1];
	for (unsigned t = 0;; ++t) { memcpy(dest, sentinel, sizeof dest); uint64_t live0 = r.al.live_bytes; lzma_ret q = lzma_filters_copy(S.ch.f, dest, al); S.ch.check_unchanged(r, "lzma_filters_copy");
		if (q != LZMA_MEM_ERROR) { r.result("lzma_filters_copy", hcomb((uint64_t)q, filters_value(dest))); if (q != LZMA_OK) harness_bug("filters_copy %s", drv::retname(q)); break; }
		r.memfail("lzma_filters_copy"); if (memcmp(dest, sentinel, sizeof dest)) violation("C10:caller-object-modified", "%s: dest was written although lzma_filters_copy failed (documented since 5.2.7: only modified on LZMA_OK)", r.where("lzma_filters_copy").c_str());
		r.expect_live("lzma_filters_copy", live0, "failed lzma_filters_copy frees what it allocated"); r.next_try(t, "lzma_filters_copy"); }
	// lzma_str_to_filters
	lzma_filter parsed[LZMA_FILTERS_MAX + 1];
	for (unsigned t = 0;; ++t) { memcpy(parsed, sentinel, sizeof parsed); uint64_t live0 = r.al.live_bytes; int pos = -7; const char *msg = lzma_str_to_filters(S.str.c_str(), &pos, parsed, S.str_flags, al);
		if (!msg) { r.result("lzma_str_to_filters", filters_value(parsed)); break; }
		if (!r.ref) harness_bug("lzma_str_to_filters rejects '%s': %s", S.str.c_str(), msg);
		r.memfail("lzma_str_to_filters"); if (memcmp(parsed, sentinel, sizeof parsed)) violation("C10:caller-object-modified", "%s: filters array modified although an error (%s) was returned", r.where("lzma_str_to_filters").c_str(), msg);
		if (pos < 0) violation("C10:output-on-failure", "%s: error_pos not set on error", r.where("lzma_str_to_filters").c_str());
		r.expect_live("lzma_str_to_filters", live0, "failed lzma_str_to_filters"); r.next_try(t, "lzma_str_to_filters"); }
	// lzma_str_from_filters on the parsed chain, lzma_str_list_filters
	for (int which = 0; which < 2; ++which) for (unsigned t = 0;; ++t) { const char *api = which ? "lzma_str_list_filters" : "lzma_str_from_filters"; char *str = (char *)(uintptr_t)8; uint64_t live0 = r.al.live_bytes;
		lzma_ret q = which ? lzma_str_list_filters(&str, S.list_id, S.list_flags, al) : lzma_str_from_filters(&str, parsed, S.from_flags, al);
		if (q != LZMA_MEM_ERROR) { r.result(api, hcomb((uint64_t)q, q == LZMA_OK && str ? hash_bytes(str, strlen(str)) : 0)); if (q == LZMA_OK) r.al.a.free(r.al.a.opaque, str); r.expect_live(api, live0, "string freed"); break; }
		r.memfail(api); if (str != NULL) violation("C10:output-on-failure", "%s: *str is not NULL after LZMA_MEM_ERROR", r.where(api).c_str());
		r.expect_live(api, live0, "failed string function"); r.next_try(t, api); }
	// lzma_properties_decode / lzma_filter_flags_decode
	for (unsigned t = 0;; ++t) { lzma_filter f; f.id = S.props_id; f.options = (void *)(uintptr_t)8; uint64_t live0 = r.al.live_bytes; lzma_ret q = lzma_properties_decode(&f, al, S.props.data(), S.props.size());
		if (q != LZMA_MEM_ERROR) { lzma_filter one[2] = {f, {LZMA_VLI_UNKNOWN, NULL}}; r.result("lzma_properties_decode", hcomb((uint64_t)q, q == LZMA_OK ? filters_value(one, true) : 0)); if (q == LZMA_OK) r.al.a.free(r.al.a.opaque, f.options); r.expect_live("lzma_properties_decode", live0, "options freed"); break; }
		r.memfail("lzma_properties_decode"); if (f.options != NULL) violation("C10:output-on-failure", "%s: filter->options is not NULL after an error", r.where("lzma_properties_decode").c_str());
		r.expect_live("lzma_properties_decode", live0, "failed lzma_properties_decode"); r.next_try(t, "lzma_properties_decode"); }
	for (unsigned t = 0;; ++t) { lzma_filter f; f.id = 0; f.options = NULL; size_t ip = 0; uint64_t live0 = r.al.live_bytes; lzma_ret q = lzma_filter_flags_decode(&f, al, S.fflags.data(), &ip, S.fflags.size());
		if (q != LZMA_MEM_ERROR) { lzma_filter one[2] = {f, {LZMA_VLI_UNKNOWN, NULL}}; r.result("lzma_filter_flags_decode", hcomb(hcomb((uint64_t)q, ip), q == LZMA_OK ? filters_value(one, true) : 0)); if (q == LZMA_OK) r.al.a.free(r.al.a.opaque, f.options); r.expect_live("lzma_filter_flags_decode", live0, "options freed"); break; }
		r.memfail("lzma_filter_flags_decode"); r.expect_live("lzma_filter_flags_decode", live0, "failed lzma_filter_flags_decode"); r.next_try(t, "lzma_filter_flags_decode"); }
	// lzma_block_header_decode
	for (unsigned t = 0;; ++t) { lzma_block b; memset(&b, 0, sizeof b); lzma_filter hf[LZMA_FILTERS_MAX + 1]; memcpy(hf, sentinel, sizeof hf); b.version = 1; b.check = S.check; b.filters = hf; b.header_size = (uint32_t)S.bhdr.size(); uint64_t live0 = r.al.live_bytes;
		lzma_ret q = lzma_block_header_decode(&b, al, S.bhdr.data());
		if (q != LZMA_MEM_ERROR) { r.result("lzma_block_header_decode", hcomb((uint64_t)q, q == LZMA_OK ? filters_value(hf, true) : 0)); if (q != LZMA_OK) harness_bug("block_header_decode %s", drv::retname(q)); lzma_filters_free(hf, al); r.expect_live("lzma_filters_free", live0, "options freed"); break; }
		r.memfail("lzma_block_header_decode"); r.expect_live("lzma_block_header_decode", live0, "failed lzma_block_header_decode frees the options it allocated"); r.next_try(t, "lzma_block_header_decode"); }
	lzma_filters_free(dest, al); lzma_filters_free(parsed, al);
	r.expect_live("lzma_filters_free", 0, "all filter options freed");
}

#include "c10_scen2.h"
