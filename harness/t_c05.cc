// t_c05.cc - C05: corruption and truncation are never reported as success with different data.
// case = base file (small, generated) ; inner EXHAUSTIVE loops: every single-bit flip and every truncation
// length of that file, plus case-chosen multi-byte overwrite / insert / delete / duplicate, each through the
// matching decoder (single-threaded with and without CONCATENATED, auto, threaded).
// Oracle (ref-independent except for the field layout of the undamaged file):
//  1. STREAM_END  =>  delivered bytes == original plaintext (of the Streams that remain whole)  [files with a Check / .lz]
//  2. .xz: damage wholly outside the compressed payload (magic, Stream Flags, CRC32s, Block Header, Block Padding,
//     Check, Index, Backward Size, Stream Padding) => an error status
//  3. a file cut inside a Stream / member is never STREAM_END (LZMA_FINISH given)
#include "vgen.h"
#include "drv.h"
#include "enccfg.h"
#include "common.h"
#include "alloc.h"
#include "ref/xzparse.h"

using namespace vg;

static va::Alloc *g_alp;
static const lzma_allocator *AL() { if (!g_alp) { g_alp = new va::Alloc(); g_alp->cap = 64u << 20; g_alp->poison = false; } return &g_alp->a; }
extern "C" size_t vfresh_max(void) { return 64; }

enum Kind { K_XZ, K_LZMA, K_LZ };
struct Base {
	Kind kind; std::vector<uint8_t> bytes, plain;
	std::vector<size_t> stream_end;        // .xz: end offset of each Stream (without padding); .lz: end of each member
	std::vector<size_t> plain_end;         // plaintext length after each Stream / member
	std::vector<std::pair<size_t, size_t>> payload; // .xz: [begin,end) of each Block's compressed data
	struct Crc { size_t begin, end, crc_at; };   // .xz: CRC32-protected structure [begin,end) with its CRC32 stored at crc_at
	std::vector<Crc> crcs;
	bool has_check = true; bool lzma_known = false, lzma_marker = true; bool size_fields = false;
	struct Blk { size_t hdr_off, total, plain_off, plain_len; unsigned check; };   // .xz: every Block (header .. Check) and its plaintext range
	std::vector<Blk> blks;
	std::string desc;
};

static std::vector<uint8_t> raw_lzma1(const std::vector<uint8_t> &plain, bool marker, lzma_options_lzma &o) {
	lzma_filter f[2] = {{marker ? LZMA_FILTER_LZMA1 : LZMA_FILTER_LZMA1EXT, &o}, {LZMA_VLI_UNKNOWN, NULL}};
	o.ext_flags = 0; o.ext_size_low = UINT32_MAX; o.ext_size_high = UINT32_MAX;
	lzma_stream s = LZMA_STREAM_INIT;
	if (lzma_raw_encoder(&s, f) != LZMA_OK) harness_bug("raw encoder");
	drv::Result r = drv::run(&s, plain.data(), plain.size(), drv::Schedule()); lzma_end(&s);
	if (r.ret != LZMA_STREAM_END) harness_bug("raw encode");
	return r.out;
}
static void put32(std::vector<uint8_t> &v, uint32_t x) { for (int i = 0; i < 4; ++i) v.push_back((uint8_t)(x >> (8 * i))); }
static void put64(std::vector<uint8_t> &v, uint64_t x) { for (int i = 0; i < 8; ++i) v.push_back((uint8_t)(x >> (8 * i))); }

static Base make_base(Case &c) {
	Base B; uint8_t kb = c.byte(); B.kind = kb < 170 ? K_XZ : (kb < 215 ? K_LZ : K_LZMA);
	char d[200];
	if (B.kind == K_XZ) {
		unsigned nstreams = 1 + c.rare(90);
		lzma_check chk = c.pick({LZMA_CHECK_CRC32, LZMA_CHECK_CRC64, LZMA_CHECK_SHA256, LZMA_CHECK_NONE});
		B.has_check = chk != LZMA_CHECK_NONE; B.size_fields = c.flag();
		lzma_options_lzma lz; lzma_lzma_preset(&lz, 0); lz.dict_size = 4096; lzma_options_delta od = {LZMA_DELTA_TYPE_BYTE, 1, 0, 0, 0, 0, NULL, NULL};
		lzma_filter fl[3]; unsigned nf = 0; bool delta = c.rare(50);
		if (delta) { fl[nf].id = LZMA_FILTER_DELTA; fl[nf++].options = &od; }
		fl[nf].id = LZMA_FILTER_LZMA2; fl[nf++].options = &lz; fl[nf].id = LZMA_VLI_UNKNOWN; fl[nf].options = NULL;
		unsigned tb = 0;
		for (unsigned si = 0; si < nstreams; ++si) {
			unsigned nblocks = 1 + c.small(2); tb += nblocks;
			lzma_stream s = LZMA_STREAM_INIT; static uint8_t z[1];
			std::vector<uint8_t> out(8192 + 64 * nblocks + 4096); s.next_out = out.data(); s.avail_out = out.size();
			if (B.size_fields) { lzma_mt mt; memset(&mt, 0, sizeof mt); mt.threads = 1; mt.filters = fl; mt.check = chk; mt.block_size = 1u << 20; if (lzma_stream_encoder_mt(&s, &mt) != LZMA_OK) harness_bug("mt init"); }
			else if (lzma_stream_encoder(&s, fl, chk) != LZMA_OK) harness_bug("enc init");
			for (unsigned b = 0; b < nblocks; ++b) {
				Recipe r = draw_recipe(c, 1400, 64); if (r.len == 0 && b == 0) r.len = 1 + c.u(40);
				std::vector<uint8_t> piece = expand(r); B.plain.insert(B.plain.end(), piece.begin(), piece.end());
				s.next_in = piece.empty() ? z : piece.data(); s.avail_in = piece.size();
				lzma_action a = b + 1 == nblocks ? LZMA_FINISH : LZMA_FULL_FLUSH; lzma_ret rr; do rr = lzma_code(&s, a); while (rr == LZMA_OK);
				if (rr != LZMA_STREAM_END) harness_bug("generator encode %d", (int)rr);
			}
			out.resize(out.size() - s.avail_out); lzma_end(&s);
			B.bytes.insert(B.bytes.end(), out.begin(), out.end()); B.stream_end.push_back(B.bytes.size()); B.plain_end.push_back(B.plain.size());
			if (si + 1 < nstreams) B.bytes.insert(B.bytes.end(), 4 * c.u(3), 0);
		}
		if (c.rare(40)) B.bytes.insert(B.bytes.end(), 4 * (1 + c.u(2)), 0); // trailing Stream Padding
		ref::XzOpts xo; xo.concatenated = true; ref::XzResult X = ref::xz_decode(B.bytes.data(), B.bytes.size(), xo);
		if (!X.ok() || X.out != B.plain) harness_bug("generated base file rejected by the reference parser: %s", X.rule.c_str());
		{ size_t po = 0; for (auto &S : X.streams) for (auto &b : S.blocks) { B.blks.push_back({b.hdr_off, b.hdr_size + b.data_size + b.pad_size + b.check_size, po, (size_t)b.unc_size, S.check_id}); po += (size_t)b.unc_size; } }
		for (auto &S : X.streams) { for (auto &b : S.blocks) { B.payload.push_back({b.data_off, b.data_off + b.data_size}); B.crcs.push_back({b.hdr_off, b.hdr_off + b.hdr_size - 4, b.hdr_off + b.hdr_size - 4}); }
			B.crcs.push_back({S.off + 6, S.off + 8, S.off + 8});                                  // Stream Flags of the header
			B.crcs.push_back({S.index_off, S.index_off + S.index_size - 4, S.index_off + S.index_size - 4}); // Index
			B.crcs.push_back({S.footer_off + 4, S.footer_off + 10, S.footer_off}); }               // Backward Size + Stream Flags of the footer
		snprintf(d, sizeof d, "{\"kind\":\"xz\",\"streams\":%u,\"blocks\":%u,\"check\":%d,\"size_fields\":%d,\"delta\":%d,\"len\":%zu,\"plain\":%zu}", nstreams, tb, (int)chk, (int)B.size_fields, (int)delta, B.bytes.size(), B.plain.size());
	} else if (B.kind == K_LZMA) {
		B.has_check = false; B.lzma_known = c.flag(); B.lzma_marker = B.lzma_known ? c.flag() : true;
		Recipe r = draw_recipe(c, 1400, 64); if (r.len == 0) r.len = 1 + c.u(40); B.plain = expand(r);
		lzma_options_lzma o; lzma_lzma_preset(&o, 0); o.dict_size = 4096;
		std::vector<uint8_t> pay = raw_lzma1(B.plain, B.lzma_marker, o);
		B.bytes.push_back((uint8_t)((o.pb * 5 + o.lp) * 9 + o.lc)); put32(B.bytes, 4096); put64(B.bytes, B.lzma_known ? B.plain.size() : UINT64_MAX);
		B.bytes.insert(B.bytes.end(), pay.begin(), pay.end()); B.stream_end.push_back(B.bytes.size()); B.plain_end.push_back(B.plain.size());
		snprintf(d, sizeof d, "{\"kind\":\"lzma\",\"known_size\":%d,\"marker\":%d,\"len\":%zu,\"plain\":%zu}", (int)B.lzma_known, (int)B.lzma_marker, B.bytes.size(), B.plain.size());
	} else {
		unsigned members = 1 + c.rare(90); unsigned ver = c.flag();
		for (unsigned m = 0; m < members; ++m) {
			Recipe r = draw_recipe(c, 1400, 64); if (r.len == 0 && m == 0) r.len = 1 + c.u(40); std::vector<uint8_t> piece = expand(r);
			lzma_options_lzma o; lzma_lzma_preset(&o, 0); o.dict_size = 4096; o.lc = 3; o.lp = 0; o.pb = 2;
			std::vector<uint8_t> pay = raw_lzma1(piece, true, o);
			size_t start = B.bytes.size();
			B.bytes.insert(B.bytes.end(), {'L', 'Z', 'I', 'P', (uint8_t)ver, 12});
			B.bytes.insert(B.bytes.end(), pay.begin(), pay.end());
			put32(B.bytes, ref::crc32(piece.data(), piece.size())); put64(B.bytes, piece.size());
			if (ver == 1) put64(B.bytes, B.bytes.size() - start + 8);
			B.plain.insert(B.plain.end(), piece.begin(), piece.end()); B.stream_end.push_back(B.bytes.size()); B.plain_end.push_back(B.plain.size());
		}
		snprintf(d, sizeof d, "{\"kind\":\"lz\",\"version\":%u,\"members\":%u,\"len\":%zu,\"plain\":%zu}", ver, members, B.bytes.size(), B.plain.size());
	}
	B.desc = d; return B;
}

enum Dec { D_ST_CONCAT, D_ST_SINGLE, D_AUTO_CONCAT, D_MT_CONCAT, D_MT_FAILFAST, D_ST_BYTEWISE, D_N };
static const char *dec_names[] = {"st+concat", "st", "auto+concat", "mt+concat", "mt+concat+failfast", "st+concat fed one byte at a time"};

// "warm handles" (half of the cases, chosen by the last case byte): each decoder setting keeps ONE lzma_stream for the whole case and is
// re-initialised on it for every damaged variant without lzma_end() in between, as a program decoding many files does - state that
// is only reset when the coder is first allocated (and not on every initialisation) leaks from one file into the verdict on the next
static bool g_warm = false;
static lzma_stream g_pool[8]; static bool g_pool_used[8];
static void end_warm_handles() { for (int i = 0; i < 8; ++i) if (g_pool_used[i]) { lzma_end(&g_pool[i]); g_pool_used[i] = false; } }

static drv::Result decode(const Base &B, int dec, const uint8_t *p, size_t n) {
	lzma_stream local = LZMA_STREAM_INIT; lzma_stream *sp = &local;
	if (g_warm) { sp = &g_pool[dec]; if (!g_pool_used[dec]) { lzma_stream z = LZMA_STREAM_INIT; *sp = z; g_pool_used[dec] = true; } }
	lzma_stream &s = *sp; s.allocator = AL(); lzma_ret r; drv::Opts o; o.out_cap = 1u << 20;
	uint32_t fl = (dec == D_ST_SINGLE) ? 0 : LZMA_CONCATENATED;
	drv::Schedule sch; if (dec == D_ST_BYTEWISE) { sch.tail_in = 1; sch.tail_out = 1u << 20; }
	if (dec == D_AUTO_CONCAT) r = lzma_auto_decoder(&s, UINT64_MAX, fl);
	else if (B.kind == K_LZMA) r = lzma_alone_decoder(&s, UINT64_MAX);
	else if (B.kind == K_LZ) r = lzma_lzip_decoder(&s, UINT64_MAX, fl);
	else if (dec == D_MT_CONCAT || dec == D_MT_FAILFAST) { lzma_mt mt; memset(&mt, 0, sizeof mt); mt.threads = 2; mt.flags = fl | (dec == D_MT_FAILFAST ? LZMA_FAIL_FAST : 0); mt.memlimit_threading = UINT64_MAX; mt.memlimit_stop = UINT64_MAX; r = lzma_stream_decoder_mt(&s, &mt); o.idle_limit = 1u << 20; }
	else r = lzma_stream_decoder(&s, UINT64_MAX, fl);
	if (r != LZMA_OK) harness_bug("decoder init %d", (int)r);
	drv::Result R = drv::run(&s, p, n, sch, o); if (!g_warm) lzma_end(&s); return R;
}

struct Judge { const Base &B; uint64_t evals = 0, flips = 0, truncs = 0, success_same = 0, errors = 0; std::map<std::string, uint64_t> field_hits; };

// plaintext that a decoder must deliver if it reports success for a damaged file whose first `whole` Streams are intact
static bool out_is_plain_prefix_at_boundary(const Base &B, const std::vector<uint8_t> &out, bool single) {
	// success is only acceptable with the plaintext of a whole number of leading Streams (all of them for an intact structure)
	for (size_t i = 0; i < B.plain_end.size(); ++i) { if (single && i > 0) break; if (out.size() == B.plain_end[i] && (out.empty() || memcmp(out.data(), B.plain.data(), out.size()) == 0)) return true; }
	return false;
}

static const char *field_of(const Base &B, size_t off) {
	if (B.kind != K_XZ) return "n/a";
	for (auto &p : B.payload) if (off >= p.first && off < p.second) return "payload";
	return "non-payload";
}

// The Block API on the damaged Block(s): lzma_block_header_decode() + lzma_block_decoder(), once with a freshly zeroed lzma_block and
// once with one that the application has used before (ignore_check still true, sizes and raw_check stale - exactly the members that
// block.h says the header decoder (re)writes; reserved members zero).  A single Block cannot be judged against the original data
// (without the Index a damaged Block can be a valid *other* Block: a flipped control byte can turn it into an empty Block whose
// CRC32 happens to follow), so the oracle is metamorphic: both runs must agree in status and bytes - if the stale ignore_check
// survived, the Check is skipped and damage is reported as success.
static drv::Result block_api_run(const std::vector<uint8_t> &dam, size_t hdr_off, unsigned check, bool reused, bool &hdr_ok) {
	drv::Result R; R.ret = LZMA_DATA_ERROR; hdr_ok = false;
	lzma_block blk; memset(&blk, 0, sizeof blk); lzma_filter fl[LZMA_FILTERS_MAX + 1];
	blk.version = 1; blk.check = (lzma_check)check; blk.filters = fl; blk.header_size = lzma_block_header_size_decode(dam[hdr_off]);
	if (reused) { blk.ignore_check = true; blk.compressed_size = 0x1234567; blk.uncompressed_size = 0x7654321; memset(blk.raw_check, 0x5A, sizeof blk.raw_check); }
	if (hdr_off + blk.header_size > dam.size()) return R;
	if (lzma_block_header_decode(&blk, AL(), dam.data() + hdr_off) != LZMA_OK) return R;
	hdr_ok = true;
	lzma_stream s = LZMA_STREAM_INIT; s.allocator = AL();
	if (lzma_block_decoder(&s, &blk) == LZMA_OK) { drv::Opts o; o.out_cap = 1u << 20; R = drv::run(&s, dam.data() + hdr_off + blk.header_size, dam.size() - hdr_off - blk.header_size, drv::Schedule(), o); } else R.ret = LZMA_OPTIONS_ERROR;
	lzma_end(&s); lzma_filters_free(fl, AL());
	return R;
}
static void check_block_api(Judge &J, const std::vector<uint8_t> &dam, const char *what, size_t a, size_t b) {
	const Base &B = J.B; if (B.kind != K_XZ || !B.has_check || dam.size() != B.bytes.size()) return;
	for (auto &k : B.blks) {
		if (b <= k.hdr_off || a >= k.hdr_off + k.total || dam[k.hdr_off] == 0) continue;
		bool ok1, ok2; drv::Result F = block_api_run(dam, k.hdr_off, k.check, false, ok1), U = block_api_run(dam, k.hdr_off, k.check, true, ok2); J.evals += 2;
		if (ok1 != ok2 || F.ret != U.ret || F.out != U.out)
			violation("C05:block-api-stale-member-changes-verdict", "%s %s@%zu..%zu: Block API with a fresh lzma_block: %s, %zu bytes; with a reused one (ignore_check/sizes/raw_check stale before lzma_block_header_decode): %s, %zu bytes",
				B.desc.c_str(), what, a, b, drv::retname(F.ret), F.out.size(), drv::retname(U.ret), U.out.size());
		if (U.ret == LZMA_STREAM_END) { ++J.success_same; if (U.out.size() != k.plain_len || (k.plain_len && memcmp(U.out.data(), B.plain.data() + k.plain_off, k.plain_len))) count("block_api_damaged_block_is_another_valid_block"); } else ++J.errors;
	}
}

static void check_one(Judge &J, const std::vector<uint8_t> &dam, const char *what, size_t a, size_t b, bool nonpayload_only, bool is_trunc, bool mt_too = true, int only_dec = -1) {
	const Base &B = J.B;
	if (only_dec < 0 && !is_trunc) check_block_api(J, dam, what, a, b);
	for (int dec = 0; dec < D_N; ++dec) {
		if (only_dec >= 0 && dec != only_dec) continue;
		if ((dec == D_MT_CONCAT || dec == D_MT_FAILFAST || dec == D_ST_BYTEWISE) && !mt_too) continue;   // the costlier settings run on a subset
		if ((dec == D_MT_CONCAT || dec == D_MT_FAILFAST) && B.kind != K_XZ) continue;
		if (B.kind == K_LZMA && dec == D_ST_SINGLE) continue; // same decoder as D_ST_CONCAT for .lzma
		drv::Result R = decode(B, dec, dam.data(), dam.size()); ++J.evals;
		if (R.ret == LZMA_MEM_ERROR || R.capped) { count("environment_or_capped"); continue; }
		const bool single = dec == D_ST_SINGLE;
		if (R.ret == LZMA_STREAM_END) {
			// clause 1: success only with the original data
			bool applies1 = B.has_check || B.kind == K_LZ || (B.kind == K_LZMA);
			if (B.kind == K_LZMA && !is_trunc) applies1 = false; // .lzma carries no integrity check: bit flips in it are out of scope
			if (applies1 && !out_is_plain_prefix_at_boundary(B, R.out, single))
				violation("C05:success-with-different-data", "%s %s@%zu..%zu: decoder %s reports LZMA_STREAM_END with %zu bytes that are not the original data (%zu bytes)", B.desc.c_str(), what, a, b, dec_names[dec], R.out.size(), B.plain.size());
			// clause 2: damage wholly outside the payload must be an error (only meaningful where the decoder reads that region)
			if (nonpayload_only && B.kind == K_XZ) {
				bool region_is_read = !single || b <= B.stream_end[0];
				if (region_is_read) violation("C05:nonpayload-damage-accepted", "%s %s@%zu..%zu (outside the compressed payload): decoder %s reports LZMA_STREAM_END", B.desc.c_str(), what, a, b, dec_names[dec]);
			}
			// clause 3: truncation inside a Stream / member
			if (is_trunc) {
				size_t t = dam.size(); bool inside = true;
				// last Stream / member that is wholly present
				int last = -1; for (size_t i = 0; i < B.stream_end.size(); ++i) if (B.stream_end[i] <= t) last = (int)i;
				if (last >= 0) {
					size_t lo = B.stream_end[last];
					if (single) inside = false;                       // without CONCATENATED nothing after the first Stream / member is read
					else if (B.kind == K_XZ) { size_t pad_end = lo; while (pad_end < B.bytes.size() && B.bytes[pad_end] == 0) ++pad_end; // Stream Padding of the original
						if (t <= pad_end && ((t - lo) & 3) == 0) inside = false; }      // whole Streams + padding in multiples of 4: a valid shorter file
					else if (B.kind == K_LZ) { if (t - lo < 4) inside = false; }        // < 4 bytes after a member: trailing data by the documented rule
					else inside = t < B.bytes.size();
				}
				if (B.kind == K_LZMA && B.lzma_known && !B.lzma_marker) inside = false; // no terminator in this sub-format: only clause 1 applies
				if (inside) violation("C05:truncated-reported-complete", "%s cut to %zu of %zu bytes: decoder %s reports LZMA_STREAM_END", B.desc.c_str(), t, B.bytes.size(), dec_names[dec]);
			}
			++J.success_same;
		} else ++J.errors;
	}
}

extern "C" int LLVMFuzzerTestOneInput(const uint8_t *data, size_t size) {
	begin_case("C05");
	Case c(data, size);
	Base B = make_base(c);
	g_warm = size > 0 && (data[size - 1] & 1); if (g_warm) { B.desc.pop_back(); B.desc += ",\"warm_handles\":true}"; count("warm_handles"); }
	struct EndWarm { ~EndWarm() { end_warm_handles(); } } end_warm_guard;
	set_desc(B.desc);
	Judge J{B};
	// sanity: the undamaged file decodes to the plaintext with every decoder
	for (int dec = 0; dec < D_N; ++dec) { if ((dec == D_MT_CONCAT || dec == D_MT_FAILFAST) && B.kind != K_XZ) continue; drv::Result R = decode(B, dec, B.bytes.data(), B.bytes.size());
		bool single = dec == D_ST_SINGLE; size_t want = single ? B.plain_end[0] : B.plain.size();
		if (R.ret != LZMA_STREAM_END || R.out.size() != want || (want && memcmp(R.out.data(), B.plain.data(), want))) violation("C01:roundtrip", "%s: undamaged file: decoder %s gives %s / %zu bytes", B.desc.c_str(), dec_names[dec], drv::retname(R.ret), R.out.size()); }
	// ---- exhaustive single-bit flips (base files above 1200 bytes - incompressible plaintext - are rare and would cost minutes per case:
	// there every stride-th bit and length is taken, the structures outside the payload are still covered by the CRC-consistent edits)
	const size_t nbits = B.bytes.size() * 8; const size_t stride = B.bytes.size() > 1200 ? (nbits + 2399) / 2400 : 1, phase = stride > 1 ? (size_t)(hash_bytes(data, size) % stride) : 0;
	if (stride > 1) count("large_base_file_faults_sampled_every_nth");
	std::vector<uint8_t> dam = B.bytes;
	for (size_t i = 0; i < B.bytes.size(); ++i) for (unsigned bit = 0; bit < 8; ++bit) {
		if (stride > 1 && (i * 8 + bit) % stride != phase) continue;
		dam[i] ^= (uint8_t)(1u << bit);
		bool np = B.kind == K_XZ && strcmp(field_of(B, i), "non-payload") == 0;
		check_one(J, dam, "bitflip", i, i + 1, np, false, bit == 0 || bit == 7); ++J.flips; // threaded decoder: two of the eight flips per byte (thread start-up cost)
		dam[i] = B.bytes[i];
	}
	// ---- exhaustive truncations
	for (size_t t = 0; t < B.bytes.size(); ++t) { if (stride > 1 && t % ((stride + 7) / 8) != 0 && t + 64 < B.bytes.size() && t > 64) continue; std::vector<uint8_t> tr(B.bytes.begin(), B.bytes.begin() + t); check_one(J, tr, "truncate", t, B.bytes.size(), false, true); ++J.truncs; }
	// ---- exhaustive Stream Padding lengths 0..9 at every padding position of an .xz base file: valid iff a multiple of 4
	uint64_t padvars = 0;
	if (B.kind == K_XZ) for (size_t si = 0; si < B.stream_end.size(); ++si) {
		size_t lo = B.stream_end[si], hi = lo; while (hi < B.bytes.size() && B.bytes[hi] == 0) ++hi;
		for (size_t pl = 0; pl <= 9; ++pl) { if (pl == hi - lo) continue;
			std::vector<uint8_t> m(B.bytes.begin(), B.bytes.begin() + lo); m.insert(m.end(), pl, 0); m.insert(m.end(), B.bytes.begin() + hi, B.bytes.end()); ++padvars;
			for (int dec : {D_ST_CONCAT, D_ST_BYTEWISE, D_AUTO_CONCAT, D_MT_CONCAT}) { drv::Result R = decode(B, dec, m.data(), m.size()); ++J.evals;
				if (R.ret == LZMA_MEM_ERROR || R.capped) continue;
				bool ok = R.ret == LZMA_STREAM_END;
				if ((pl & 3) && ok) violation("C05:stream-padding-length-accepted", "%s: Stream Padding of %zu bytes after Stream %zu: decoder %s reports LZMA_STREAM_END", B.desc.c_str(), pl, si + 1, dec_names[dec]);
				if (!(pl & 3) && (!ok || R.out != B.plain)) violation("C03:valid-rejected", "%s: Stream Padding of %zu bytes after Stream %zu is valid but decoder %s gives %s / %zu bytes", B.desc.c_str(), pl, si + 1, dec_names[dec], drv::retname(R.ret), R.out.size()); } } }
	count("stream_padding_length_variants", padvars);
	// ---- case-chosen multi-byte damage
	unsigned extra = 4 + c.u(28);
	for (unsigned e = 0; e < extra; ++e) {
		std::vector<uint8_t> m = B.bytes; unsigned k = c.u(4); size_t p = c.u32() % m.size(); size_t l = 1 + c.u(12); const char *what; bool np = false;
		if (k == 0) { if (p + l > m.size()) l = m.size() - p; bool changed = false; for (size_t i = 0; i < l; ++i) { uint8_t v = c.byte(); if (v != m[p + i]) changed = true; m[p + i] = v; } if (!changed) continue; what = "overwrite";
			if (B.kind == K_XZ) { np = true; for (size_t i = p; i < p + l; ++i) if (strcmp(field_of(B, i), "payload") == 0) np = false; } }
		else if (k == 1) { std::vector<uint8_t> ins = c.blob(l); m.insert(m.begin() + p, ins.begin(), ins.end()); what = "insert"; }
		else if (k == 2) { if (p + l > m.size()) l = m.size() - p; m.erase(m.begin() + p, m.begin() + p + l); what = "delete"; }
		else { if (p + l > m.size()) l = m.size() - p; std::vector<uint8_t> dup(m.begin() + p, m.begin() + p + l); m.insert(m.begin() + p, dup.begin(), dup.end()); what = "duplicate"; }
		// insert/delete/duplicate of zero bytes inside Stream Padding in groups of 4 keeps a file valid: success then still needs the original data (clause 1), clause 2 is not applied
		if (B.kind == K_XZ) {
			// zero-filled overwrites / whole-group edits inside Stream Padding can leave a *valid* file (decided by the reference parser):
			// then success is required to deliver what that valid file contains, and clause 2 does not apply
			ref::XzOpts xo; xo.concatenated = true; xo.out_limit = 1u << 20; ref::XzResult X = ref::xz_decode(m.empty() ? (const uint8_t *)"" : m.data(), m.size(), xo);
			if (X.ok()) { count("multibyte_damage_left_a_valid_file"); drv::Result R = decode(B, D_ST_CONCAT, m.data(), m.size());
				if (R.ret != LZMA_STREAM_END || R.out != X.out) violation("C03:valid-rejected", "%s %s@%zu+%zu leaves a valid file (reference) but the decoder gives %s / %zu bytes", B.desc.c_str(), what, p, l, drv::retname(R.ret), R.out.size());
				continue; }
		}
		check_one(J, m, what, p, p + l, np, false);
	}
	// ---- CRC-consistent damage (exhaustive over every byte of every CRC32-protected structure x 4 value changes): the CRC32 is
	// recomputed, so only the *semantic* checks (flag comparison, Backward Size, Index vs Blocks, reserved bits, ...) can catch it.
	// Such a file may legitimately still be valid (e.g. a larger dictionary size): the reference parser decides; then the decoder
	// must succeed with the reference's bytes, otherwise it must fail.
	uint64_t crcfix = 0, crcfix_valid = 0;
	if (B.kind == K_XZ) for (auto &cr : B.crcs) for (size_t i = cr.begin; i < cr.end; ++i) for (int v = 0; v < 4; ++v) {
		std::vector<uint8_t> m = B.bytes; uint8_t nv = v == 0 ? m[i] ^ 1 : v == 1 ? m[i] ^ 0x80 : v == 2 ? (uint8_t)(m[i] + 1) : (uint8_t)hcomb(i, m[i]);
		if (nv == m[i]) continue; m[i] = nv;
		uint32_t crc = ref::crc32(m.data() + cr.begin, cr.end - cr.begin); for (int k = 0; k < 4; ++k) m[cr.crc_at + k] = (uint8_t)(crc >> (8 * k));
		ref::XzOpts xo; xo.concatenated = true; xo.out_limit = 1u << 20; ref::XzResult X = ref::xz_decode(m.data(), m.size(), xo); ++crcfix;
		if (X.status == ref::RS_REF_UNSUPPORTED || X.status == ref::RS_TOO_BIG) continue;
		for (int dec : {D_ST_CONCAT, D_AUTO_CONCAT, D_MT_CONCAT, D_MT_FAILFAST, D_ST_BYTEWISE}) { if (dec >= D_MT_CONCAT && (v & 1)) continue;
			drv::Result R = decode(B, dec, m.data(), m.size()); ++J.evals;
			if (R.ret == LZMA_MEM_ERROR || R.capped) continue;
			if (X.ok()) { ++crcfix_valid; if (R.ret != LZMA_STREAM_END || R.out != X.out) violation("C03:valid-rejected", "%s byte %zu -> %02x with CRC32 recomputed leaves a valid file (reference) but decoder %s gives %s / %zu bytes", B.desc.c_str(), i, nv, dec_names[dec], drv::retname(R.ret), R.out.size()); }
			else if (R.ret == LZMA_STREAM_END) violation("C05:crc-consistent-damage-accepted", "%s byte %zu -> %02x with its CRC32 recomputed: reference parser rejects (%s) but decoder %s reports LZMA_STREAM_END", B.desc.c_str(), i, nv, X.rule.c_str(), dec_names[dec]);
		}
	}
	count("crc_consistent_mutations", crcfix); count("crc_consistent_still_valid", crcfix_valid);
	count("bit_flips", J.flips); count("truncations", J.truncs); count("decodes", J.evals); count("damaged_but_still_success_with_same_data", J.success_same); count("damage_detected", J.errors);
	count(std::string("base_") + (B.kind == K_XZ ? "xz" : B.kind == K_LZ ? "lz" : "lzma")); if (B.kind == K_XZ) { count(B.has_check ? "xz_with_check" : "xz_check_none"); if (B.stream_end.size() > 1) count("multi_stream"); if (B.payload.size() > 1) count("multi_block"); if (B.size_fields) count("with_size_fields"); }
	nontrivial(hash_bytes(B.bytes.data(), B.bytes.size()));
	// every (file, fault) pair is a distinct non-trivial evaluation: account for them in bulk
	g_stats.nontrivial += J.flips + J.truncs + crcfix; g_stats.evals += J.flips + J.truncs + crcfix;
	return 0;
}
