// t_c14.cc - C14: CRC32, CRC64 and SHA-256 equal their definitions.
//
// Oracles: ref/crc.h (bit-at-a-time CRC32/CRC64 from xz-file-format.txt section 6) and
// ref/sha256.h (FIPS 180-4).  The same source is built against the asan / gen / small /
// clmul liblzma variants so that the table-driven, CLMUL-dispatched, size-optimised and
// CLMUL-unconditional code paths are each compared with the same definition.
//
// (a) grid, once per process: length 0..640 x alignment 0..63, lzma_crc32 / lzma_crc64
//     against the bitwise reference, initial value 0 and one arbitrary initial value.
// (b) generated: content kind x length (<= 1 MiB) x alignment x initial value x 1..5 splits.
// (c) integrity-check interface through the public API: Block / Stream encoders (one-shot,
//     uncompressed-chunk, multi-call in slices) must store the reference CRC32 / CRC64 /
//     SHA-256 of the input in the Check field; decoders accept it and reject any single
//     flipped bit of the Check field with LZMA_DATA_ERROR.
#include "vgen.h"
#include "drv.h"
#include "ref/crc.h"
#include "ref/sha256.h"

using namespace vg;

#if defined(VARIANT_GEN)
#define VNAME "gen"
#define VNUM 2
#elif defined(VARIANT_SMALL)
#define VNAME "small"
#define VNUM 3
#elif defined(VARIANT_CLMUL)
#define VNAME "clmul"
#define VNUM 4
#else
#define VNAME "asan"
#define VNUM 1
#endif

// ---- buffers: start at (64-byte aligned base) + a, end == end of the allocation so that
// ASan sees any read past the last byte.
struct ABuf {
	uint8_t *base = nullptr, *p = nullptr;
	ABuf(size_t a, size_t n) {
		void *q = nullptr;
		if (posix_memalign(&q, 64, a + n ? a + n : 1) != 0 || !q) harness_bug("posix_memalign failed");
		base = (uint8_t *)q; p = base + a;
	}
	ABuf(const ABuf &) = delete; ABuf &operator=(const ABuf &) = delete;
	~ABuf() { free(base); }
};

enum Kind { K_RANDOM, K_ZERO, K_FF, K_ONEBIT, K_COUNT, K_N };
static const char *const kind_names[] = {"random", "zero", "ff", "onebit", "counting"};

static void fill(uint8_t *p, size_t n, int kind, uint64_t seed) {
	if (!n) return;
	switch (kind) {
	case K_ZERO: memset(p, 0, n); break;
	case K_FF: memset(p, 0xFF, n); break;
	case K_ONEBIT: { memset(p, 0, n); uint64_t bit = mix64(seed) % ((uint64_t)n * 8); p[bit >> 3] = (uint8_t)(1u << (bit & 7)); break; }
	case K_COUNT: for (size_t i = 0; i < n; ++i) p[i] = (uint8_t)(seed + i); break;
	default: { Rng g(seed ^ 0xC14C14); size_t i = 0;
		for (; i + 8 <= n; i += 8) { uint64_t v = g.next(); memcpy(p + i, &v, 8); }
		for (; i < n; ++i) p[i] = g.byte(); break; }
	}
}

// definition for small inputs; for big ones a byte table derived from the same definition
static uint32_t R32(const uint8_t *p, size_t n, uint32_t init) { return n <= 8192 ? ref::crc32(p, n, init) : ref::crc32_fast(p, n, init); }
static uint64_t R64(const uint8_t *p, size_t n, uint64_t init) { return n <= 8192 ? ref::crc64(p, n, init) : ref::crc64_fast(p, n, init); }

// ---- (a) exhaustive grid ----------------------------------------------------------------
static const unsigned GRID_LEN = 640, GRID_ALIGN = 64;
static void run_grid() {
	std::vector<uint8_t> content(GRID_LEN + 1);
	uint64_t n_eval = 0;
	for (unsigned len = 0; len <= GRID_LEN; ++len) {
		fill(content.data(), len, K_RANDOM, 0x9000 + len);
		const uint32_t i32 = (uint32_t)mix64(len * 2 + 1); const uint64_t i64 = mix64(len * 2 + 2);
		const uint32_t r32a = ref::crc32(content.data(), len, 0), r32b = ref::crc32(content.data(), len, i32);
		const uint64_t r64a = ref::crc64(content.data(), len, 0), r64b = ref::crc64(content.data(), len, i64);
		for (unsigned a = 0; a < GRID_ALIGN; ++a) {
			char d[160]; snprintf(d, sizeof d, "{\"mode\":\"grid\",\"variant\":\"" VNAME "\",\"len\":%u,\"align\":%u}", len, a);
			g_stats.current = d;
			ABuf b(a, len);
			if (len) memcpy(b.p, content.data(), len);
			uint32_t g32a = lzma_crc32(b.p, len, 0), g32b = lzma_crc32(b.p, len, i32);
			uint64_t g64a = lzma_crc64(b.p, len, 0), g64b = lzma_crc64(b.p, len, i64);
			if (g32a != r32a || g32b != r32b)
				violation("C14:crc32-value", "grid " VNAME ": len=%u align=%u lzma_crc32 = %08x (init 0) / %08x (init %08x), definition gives %08x / %08x",
					len, a, g32a, g32b, i32, r32a, r32b);
			if (g64a != r64a || g64b != r64b)
				violation("C14:crc64-value", "grid " VNAME ": len=%u align=%u lzma_crc64 = %016llx (init 0) / %016llx (init %016llx), definition gives %016llx / %016llx",
					len, a, (unsigned long long)g64a, (unsigned long long)g64b, (unsigned long long)i64, (unsigned long long)r64a, (unsigned long long)r64b);
			++n_eval; ++g_stats.evals;
			if (len >= 1) nontrivial(hcomb(hcomb(0x6a1d, VNUM), hcomb(len, a)));
		}
	}
	count("grid_evals_" VNAME, n_eval);
	count("grid_complete");
	g_stats.current.clear();
}

// ---- (b) direct calls ---------------------------------------------------------------------
static void mode_direct(Case &c) {
	int kind = (int)c.u(K_N);
	uint32_t len = c.chance(8) ? c.len_exp(1u << 20) : (c.chance(96) ? c.len_exp(1u << 14) : c.len_exp(700));
	unsigned a = c.u(64);
	uint64_t seed = c.u32();
	uint64_t init = c.flag() ? 0 : c.u64();
	if (c.chance(20)) init = ~0ull;
	unsigned nsplit = c.range(1, 5);
	std::vector<size_t> cut;
	for (unsigned i = 0; i < nsplit; ++i) cut.push_back(len ? c.u32() % (len + 1) : 0);
	std::sort(cut.begin(), cut.end());
	ABuf b(a, len);
	fill(b.p, len, kind, seed);
	{ std::string s = "{\"mode\":\"direct\",\"variant\":\"" VNAME "\",\"kind\":\""; s += kind_names[kind]; char t[200];
		snprintf(t, sizeof t, "\",\"len\":%u,\"align\":%u,\"seed\":%llu,\"init\":\"%016llx\",\"cuts\":[", len, a, (unsigned long long)seed, (unsigned long long)init); s += t;
		for (size_t i = 0; i < cut.size(); ++i) { if (i) s += ","; s += std::to_string(cut[i]); } s += "]}"; set_desc(s); }
	const uint32_t i32 = (uint32_t)init;
	const uint32_t r32 = R32(b.p, len, i32); const uint64_t r64 = R64(b.p, len, init);
	const uint32_t g32 = lzma_crc32(b.p, len, i32); const uint64_t g64 = lzma_crc64(b.p, len, init);
	if (g32 != r32) violation("C14:crc32-value", VNAME ": lzma_crc32(len=%u, align=%u, init=%08x) = %08x, definition gives %08x", len, a, i32, g32, r32);
	if (g64 != r64) violation("C14:crc64-value", VNAME ": lzma_crc64(len=%u, align=%u, init=%016llx) = %016llx, definition gives %016llx", len, a, (unsigned long long)init, (unsigned long long)g64, (unsigned long long)r64);
	// in pieces
	uint32_t p32 = i32; uint64_t p64 = init; size_t prev = 0; unsigned nonempty = 0;
	for (size_t i = 0; i <= cut.size(); ++i) {
		size_t end = i < cut.size() ? cut[i] : len;
		p32 = lzma_crc32(b.p + prev, end - prev, p32); p64 = lzma_crc64(b.p + prev, end - prev, p64);
		if (end > prev) ++nonempty;
		prev = end;
	}
	if (p32 != r32) violation("C14:crc32-chaining", VNAME ": lzma_crc32 in %zu pieces = %08x, in one piece / by definition %08x (len=%u align=%u)", cut.size() + 1, p32, r32, len, a);
	if (p64 != r64) violation("C14:crc64-chaining", VNAME ": lzma_crc64 in %zu pieces = %016llx, by definition %016llx (len=%u align=%u)", cut.size() + 1, (unsigned long long)p64, (unsigned long long)r64, len, a);
	count("direct"); count(std::string("direct_kind_") + kind_names[kind]);
	if (init) count("direct_init_nonzero"); if (nonempty >= 2) count("direct_split_2plus_nonempty");
	if (len > 65536) count("direct_len_gt_64k"); else if (len > 640) count("direct_len_641_to_64k"); else count("direct_len_le_640");
	if (len >= 1) nontrivial(hcomb(hcomb(hcomb(0xd1, VNUM), hcomb(len, a)), hcomb(hash_bytes(b.p, len), hcomb(init, hash_bytes(cut.data(), cut.size() * sizeof(size_t))))));
}

// ---- (c) integrity-check interface -------------------------------------------------------
struct RefCheck { uint8_t v[32]; size_t n; };
static RefCheck ref_check(lzma_check chk, const uint8_t *p, size_t n) {
	RefCheck r; memset(&r, 0, sizeof r);
	if (chk == LZMA_CHECK_CRC32) { uint32_t x = R32(p, n, 0); for (int i = 0; i < 4; ++i) r.v[i] = (uint8_t)(x >> (8 * i)); r.n = 4; }
	else if (chk == LZMA_CHECK_CRC64) { uint64_t x = R64(p, n, 0); for (int i = 0; i < 8; ++i) r.v[i] = (uint8_t)(x >> (8 * i)); r.n = 8; }
	else { ref::sha256(p, n, r.v); r.n = 32; }
	return r;
}
static const char *chk_name(lzma_check c) { return c == LZMA_CHECK_CRC32 ? "crc32" : c == LZMA_CHECK_CRC64 ? "crc64" : "sha256"; }

static void cmp_check_field(const char *what, lzma_check chk, const uint8_t *field, const RefCheck &rc, size_t len) {
	if (memcmp(field, rc.v, rc.n) == 0) return;
	std::string sig = std::string("C14:check-field-") + chk_name(chk);
	violation(sig.c_str(), VNAME ": %s: Check field (%s) of %zu input bytes is %s, definition gives %s", what, chk_name(chk), len, hex(field, rc.n, 32).c_str(), hex(rc.v, rc.n, 32).c_str());
}

enum Path { P_BLOCK_BUF, P_BLOCK_UNCOMP, P_STREAM_BUF, P_STREAM_MULTI, P_N };
static const char *const path_names[] = {"block_buffer_encode", "block_uncomp_encode", "stream_buffer_encode", "stream_encoder"};

static void mode_check(Case &c) {
	lzma_check chk = c.pick<lzma_check>({LZMA_CHECK_CRC32, LZMA_CHECK_CRC64, LZMA_CHECK_SHA256});
	int path = (int)c.u(P_N);
	int kind = (int)c.u(K_N);
	uint32_t len = c.chance(64) ? c.len_exp(1u << 15) : c.len_exp(600);
	// MiB-sized inputs only through the uncompressed-chunk path (the check code sees the same calls; LZMA2 on 1 MiB of noise under ASan costs ~0.2 s)
	if (c.chance(6)) { len = c.len_exp(1u << 20); path = P_BLOCK_UNCOMP; }
	unsigned a = c.u(64);
	uint64_t seed = c.u32();
	drv::Schedule esch = drv::draw_schedule(c), dsch = drv::draw_schedule(c);
	uint32_t flip_sel = c.u32();
	if (!lzma_check_is_supported(chk)) { count("check_unsupported_in_build"); return; }
	const size_t csize = lzma_check_size(chk);
	ABuf in(a, len);
	fill(in.p, len, kind, seed);
	{ char t[256]; snprintf(t, sizeof t, "{\"mode\":\"check\",\"variant\":\"" VNAME "\",\"path\":\"%s\",\"check\":\"%s\",\"kind\":\"%s\",\"len\":%u,\"align\":%u,\"seed\":%llu,\"flip\":%u",
			path_names[path], chk_name(chk), kind_names[kind], len, a, (unsigned long long)seed, flip_sel);
		std::string s = t; if (path == P_STREAM_MULTI) s += ",\"enc_schedule\":" + esch.describe(); if (path >= P_STREAM_BUF) s += ",\"dec_schedule\":" + dsch.describe(); s += "}"; set_desc(s); }
	const RefCheck rc = ref_check(chk, in.p, len);
	if (rc.n != csize) violation("C14:check-size", "lzma_check_size(%s) = %zu", chk_name(chk), csize);

	lzma_options_lzma opt;
	if (lzma_lzma_preset(&opt, 0)) harness_bug("lzma_lzma_preset(0) failed");
	opt.dict_size = 4096;
	lzma_filter filters[2] = {{LZMA_FILTER_LZMA2, &opt}, {LZMA_VLI_UNKNOWN, NULL}};
	std::vector<uint8_t> enc; size_t check_off = 0; bool has_block = true;

	if (path == P_BLOCK_BUF || path == P_BLOCK_UNCOMP) {
		lzma_block blk; memset(&blk, 0, sizeof blk);
		blk.version = 1; blk.check = chk; blk.filters = filters;
		size_t bound = lzma_block_buffer_bound(len);
		if (!bound) harness_bug("lzma_block_buffer_bound(%u) = 0", len);
		enc.resize(bound); size_t pos = 0;
		lzma_ret r = path == P_BLOCK_BUF ? lzma_block_buffer_encode(&blk, NULL, in.p, len, enc.data(), &pos, bound)
			: lzma_block_uncomp_encode(&blk, in.p, len, enc.data(), &pos, bound);
		if (r != LZMA_OK) violation("C01:encode-failed", "%s returned %s", path_names[path], drv::retname(r));
		if (pos < csize + 8 || pos > bound) violation("C14:block-layout", "%s wrote %zu bytes (bound %zu)", path_names[path], pos, bound);
		enc.resize(pos); check_off = pos - csize;
		cmp_check_field(path_names[path], chk, enc.data() + check_off, rc, len);
		if (memcmp(blk.raw_check, rc.v, csize)) { std::string sig = std::string("C14:raw-check-") + chk_name(chk);
			violation(sig.c_str(), VNAME ": lzma_block.raw_check after encoding is %s, definition gives %s", hex(blk.raw_check, csize, 32).c_str(), hex(rc.v, csize, 32).c_str()); }
		// decoder: accepts the value, rejects a flipped bit
		for (int round = 0; round < 2; ++round) {
			std::vector<uint8_t> data = enc; unsigned bit = 0;
			if (round) { bit = flip_sel % (csize * 8); data[check_off + bit / 8] ^= (uint8_t)(1u << (bit & 7)); }
			lzma_block db; memset(&db, 0, sizeof db); lzma_filter df[LZMA_FILTERS_MAX + 1];
			db.version = 1; db.check = chk; db.filters = df;
			db.header_size = lzma_block_header_size_decode(data[0]);
			if (lzma_block_header_decode(&db, NULL, data.data()) != LZMA_OK) violation("C14:block-layout", "own Block Header not decodable");
			std::vector<uint8_t> out((size_t)len + 1); size_t ip = db.header_size, op = 0;
			lzma_ret dr = lzma_block_buffer_decode(&db, NULL, data.data(), &ip, data.size(), out.data(), &op, len);
			lzma_filters_free(df, NULL);
			if (!round) {
				if (dr != LZMA_OK || op != len || ip != data.size() || (len && memcmp(out.data(), in.p, len)))
					violation("C14:check-verify-accept", VNAME ": Block with the reference %s rejected or decoded wrongly: %s, %zu of %u bytes", chk_name(chk), drv::retname(dr), op, len);
				if (memcmp(db.raw_check, rc.v, csize)) violation("C14:raw-check-decoder", VNAME ": lzma_block.raw_check after decoding differs from the definition");
			} else if (dr != LZMA_DATA_ERROR)
				violation("C14:check-verify-reject", VNAME ": Block whose %s field has bit %u flipped: decoder returned %s instead of DATA_ERROR", chk_name(chk), bit, drv::retname(dr));
		}
	} else {
		if (path == P_STREAM_BUF) {
			size_t bound = lzma_stream_buffer_bound(len);
			if (!bound) harness_bug("lzma_stream_buffer_bound(%u) = 0", len);
			enc.resize(bound); size_t pos = 0;
			lzma_ret r = lzma_stream_buffer_encode(filters, chk, NULL, in.p, len, enc.data(), &pos, bound);
			if (r != LZMA_OK) violation("C01:encode-failed", "lzma_stream_buffer_encode returned %s", drv::retname(r));
			enc.resize(pos);
		} else {
			lzma_stream s = LZMA_STREAM_INIT;
			if (lzma_stream_encoder(&s, filters, chk) != LZMA_OK) harness_bug("lzma_stream_encoder init failed");
			drv::Opts o; o.out_hint = (size_t)len + 1024; o.out_cap = (size_t)len * 2 + (1u << 16);
			drv::Result R = drv::run(&s, in.p, len, esch, o); lzma_end(&s);
			if (R.ret != LZMA_STREAM_END || R.capped) violation("C01:encode-failed", "lzma_stream_encoder: %s", drv::retname(R.ret));
			enc.swap(R.out);
		}
		const size_t n = enc.size();
		if (n < 32 || enc[n - 2] != 'Y' || enc[n - 1] != 'Z') violation("C14:stream-layout", "no Stream Footer magic at the end of %zu bytes", n);
		uint32_t bw = enc[n - 8] | (enc[n - 7] << 8) | (enc[n - 6] << 16) | ((uint32_t)enc[n - 5] << 24);
		size_t index_size = ((size_t)bw + 1) * 4;
		if (index_size + 24 > n) violation("C14:stream-layout", "Backward Size %zu does not fit in %zu bytes", index_size, n);
		size_t check_end = n - 12 - index_size;
		if (enc[check_end] != 0x00) violation("C14:stream-layout", "no Index Indicator at offset %zu", check_end);
		unsigned nblocks = enc[check_end + 1];
		has_block = len > 0;
		if (nblocks != (has_block ? 1u : 0u)) violation("C14:stream-layout", "Index lists %u Blocks for %u input bytes (single-threaded encoder: expected %u)", nblocks, len, has_block ? 1u : 0u);
		if (has_block) {
			if (check_end < 12 + csize) violation("C14:stream-layout", "no room for a Check field");
			check_off = check_end - csize;
			cmp_check_field(path_names[path], chk, enc.data() + check_off, rc, len);
		} else count("stream_without_block");
		for (int round = 0; round < (has_block ? 2 : 1); ++round) {
			std::vector<uint8_t> data = enc; unsigned bit = 0;
			if (round) { bit = flip_sel % (csize * 8); data[check_off + bit / 8] ^= (uint8_t)(1u << (bit & 7)); }
			lzma_stream s = LZMA_STREAM_INIT;
			if (lzma_stream_decoder(&s, UINT64_MAX, LZMA_TELL_ANY_CHECK) != LZMA_OK) harness_bug("lzma_stream_decoder init failed");
			drv::Opts o; o.out_hint = (size_t)len + 64; o.out_cap = (size_t)len + (1u << 16);
			drv::Result R = drv::run(&s, data.data(), data.size(), dsch, o);
			lzma_check seen = lzma_get_check(&s); lzma_end(&s);
			if (!round) {
				if (R.ret != LZMA_STREAM_END || R.out.size() != len || (len && memcmp(R.out.data(), in.p, len)))
					violation("C14:check-verify-accept", VNAME ": Stream with the reference %s rejected or decoded wrongly: %s, %zu of %u bytes", chk_name(chk), drv::retname(R.ret), R.out.size(), len);
				if (seen != chk || R.info.size() != 1 || R.info[0] != LZMA_GET_CHECK) violation("C14:get-check", "lzma_get_check = %d, expected %d (%zu notifications)", (int)seen, (int)chk, R.info.size());
			} else if (R.ret != LZMA_DATA_ERROR)
				violation("C14:check-verify-reject", VNAME ": Stream whose %s field has bit %u flipped: decoder returned %s instead of DATA_ERROR", chk_name(chk), bit, drv::retname(R.ret));
		}
	}
	count(std::string("check_") + chk_name(chk)); count(std::string("path_") + path_names[path]);
	if (has_block) count("check_flip_rejected");
	if (len > 65536) count("check_len_gt_64k");
	if (len >= 1) nontrivial(hcomb(hcomb(hcomb(0xcc, VNUM), hcomb(len, a)), hcomb(hash_bytes(in.p, len), hcomb((uint64_t)chk * 16 + path, hcomb(esch.hash(), dsch.hash())))));
}

extern "C" size_t vfresh_max(void) { return 96; }

extern "C" int LLVMFuzzerTestOneInput(const uint8_t *data, size_t size) {
	begin_case("C14");
	static bool grid_done = false;
	if (!grid_done) { grid_done = true; run_grid(); }
	Case c(data, size);
	unsigned m = c.u(8);
	if (m < 5) mode_direct(c); else mode_check(c);
	return 0;
}
