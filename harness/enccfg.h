// enccfg.h - encoder configurations built *by construction* from the documented
// validity rules (lzma12.h, filter.h, container.h, filter_common.c:features[]),
// the encoder/decoder initialisers for each, and one-shot encode helpers.
#pragma once
#include <lzma.h>
#include <string>
#include <vector>
#include <string.h>
#include "vgen.h"
#include "drv.h"

extern "C" uint32_t lzma_verif_mf_offset_bias; // guarded hook in lz_encoder.c

namespace ec {

enum Entry { E_EASY, E_STREAM, E_STREAM_MT, E_ALONE, E_RAW, E_BLOCK, E_MICROLZMA,
	E_EASY_BUF, E_STREAM_BUF, E_BLOCK_BUF, E_RAW_BUF, E_N };
static const char *const entry_names[] = {"easy", "stream", "stream_mt", "alone", "raw", "block", "microlzma",
	"easy_buf", "stream_buf", "block_buf", "raw_buf"};
static inline bool is_xz(Entry e) { return e == E_EASY || e == E_STREAM || e == E_STREAM_MT || e == E_EASY_BUF || e == E_STREAM_BUF; }
static inline bool is_block(Entry e) { return e == E_BLOCK || e == E_BLOCK_BUF; }
static inline bool is_raw(Entry e) { return e == E_RAW || e == E_RAW_BUF; }
static inline bool is_buf(Entry e) { return e >= E_EASY_BUF; }

static const lzma_vli bcj_ids[] = {LZMA_FILTER_X86, LZMA_FILTER_POWERPC, LZMA_FILTER_IA64, LZMA_FILTER_ARM,
	LZMA_FILTER_ARMTHUMB, LZMA_FILTER_ARM64, LZMA_FILTER_SPARC, LZMA_FILTER_RISCV};
static inline uint32_t bcj_align(lzma_vli id) {
	switch (id) { case LZMA_FILTER_X86: return 1; case LZMA_FILTER_POWERPC: return 4; case LZMA_FILTER_IA64: return 16;
	case LZMA_FILTER_ARM: return 4; case LZMA_FILTER_ARMTHUMB: return 2; case LZMA_FILTER_ARM64: return 4;
	case LZMA_FILTER_SPARC: return 4; case LZMA_FILTER_RISCV: return 2; default: return 1; }
}
static inline const char *filter_name(lzma_vli id) {
	switch (id) { case LZMA_FILTER_LZMA1: return "lzma1"; case LZMA_FILTER_LZMA1EXT: return "lzma1ext"; case LZMA_FILTER_LZMA2: return "lzma2";
	case LZMA_FILTER_X86: return "x86"; case LZMA_FILTER_POWERPC: return "powerpc"; case LZMA_FILTER_IA64: return "ia64";
	case LZMA_FILTER_ARM: return "arm"; case LZMA_FILTER_ARMTHUMB: return "armthumb"; case LZMA_FILTER_ARM64: return "arm64";
	case LZMA_FILTER_SPARC: return "sparc"; case LZMA_FILTER_RISCV: return "riscv"; case LZMA_FILTER_DELTA: return "delta"; default: return "?"; }
}

struct Config {
	Entry entry = E_EASY;
	bool use_preset = true; uint32_t preset = 6;
	lzma_filter filters[LZMA_FILTERS_MAX + 1];
	unsigned nfilters = 0;
	lzma_options_lzma lz;
	lzma_options_delta delta[3];
	lzma_options_bcj bcj[3];
	bool bcj_null[3] = {false, false, false};  // options == NULL (documented as start_offset 0)
	lzma_check check = LZMA_CHECK_CRC32;
	uint32_t threads = 1; uint64_t block_size = 0; uint32_t timeout = 0;
	std::vector<uint8_t> pdict;
	unsigned warm = 0;             // != 0: encode_all() first uses the same lzma_stream for another small input (1..4: finished / abandoned, short / longer)
	uint32_t norm_after = 0;       // hook: normalise after about this many bytes (0: off)
	uint32_t micro_limit = 0;
	lzma_block block;              // E_BLOCK*
	std::vector<uint8_t> block_header;
	bool has_bcj = false, has_delta = false;
	bool ext_known = false;        // LZMA1EXT: give the decoder the real uncompressed size

	Config() { memset(filters, 0, sizeof filters); memset(&lz, 0, sizeof lz); memset(&block, 0, sizeof block);
		for (auto &f : filters) f.id = LZMA_VLI_UNKNOWN; }
	Config(const Config &) = delete; Config &operator=(const Config &) = delete;

	// fix up internal pointers (filters[] points into this object)
	void link() {
		unsigned nd = 0, nb = 0;
		for (unsigned i = 0; i < nfilters; ++i) {
			lzma_vli id = filters[i].id;
			if (id == LZMA_FILTER_DELTA) filters[i].options = &delta[nd++];
			else if (id == LZMA_FILTER_LZMA1 || id == LZMA_FILTER_LZMA1EXT || id == LZMA_FILTER_LZMA2) filters[i].options = &lz;
			else { filters[i].options = bcj_null[nb] ? NULL : &bcj[nb]; ++nb; }
		}
		filters[nfilters].id = LZMA_VLI_UNKNOWN; filters[nfilters].options = NULL;
		lz.preset_dict = pdict.empty() ? NULL : pdict.data(); lz.preset_dict_size = (uint32_t)pdict.size();
	}
	// LZMA1EXT needs the uncompressed size on the decoder side (the encoder ignores it)
	void prepare_for_len(uint64_t n) {
		if (nfilters && filters[nfilters - 1].id == LZMA_FILTER_LZMA1EXT) {
			uint64_t v = ext_known ? n : UINT64_MAX; lz.ext_size_low = (uint32_t)v; lz.ext_size_high = (uint32_t)(v >> 32); }
	}
	lzma_vli last_id() const { return nfilters ? filters[nfilters - 1].id : LZMA_VLI_UNKNOWN; }

	std::string describe() const {
		char b[512]; std::string s = "{\"entry\":\""; s += entry_names[entry]; s += "\"";
		if (use_preset) { snprintf(b, sizeof b, ",\"preset\":\"%u%s\"", preset & LZMA_PRESET_LEVEL_MASK, (preset & LZMA_PRESET_EXTREME) ? "e" : ""); s += b; }
		s += ",\"chain\":[";
		unsigned nd = 0, nb = 0;
		for (unsigned i = 0; i < nfilters; ++i) { if (i) s += ","; s += "\""; s += filter_name(filters[i].id);
			if (filters[i].id == LZMA_FILTER_DELTA) { snprintf(b, sizeof b, ":dist=%u", delta[nd++].dist); s += b; }
			else if (filters[i].id >= LZMA_FILTER_X86 && filters[i].id <= LZMA_FILTER_RISCV) { snprintf(b, sizeof b, ":start=%u%s", bcj[nb].start_offset, bcj_null[nb] ? "(null)" : ""); ++nb; s += b; }
			s += "\""; }
		snprintf(b, sizeof b, "],\"dict\":%u,\"lc\":%u,\"lp\":%u,\"pb\":%u,\"mode\":%d,\"nice\":%u,\"mf\":\"%s\",\"depth\":%u,\"pdict\":%zu,\"ext\":[%u,%llu],\"check\":%d,\"threads\":%u,\"block_size\":%llu,\"timeout\":%u,\"norm_after\":%u,\"micro_limit\":%u}",
			lz.dict_size, lz.lc, lz.lp, lz.pb, (int)lz.mode, lz.nice_len,
			lz.mf == LZMA_MF_HC3 ? "hc3" : lz.mf == LZMA_MF_HC4 ? "hc4" : lz.mf == LZMA_MF_BT2 ? "bt2" : lz.mf == LZMA_MF_BT3 ? "bt3" : "bt4",
			lz.depth, pdict.size(), lz.ext_flags, (unsigned long long)(((uint64_t)lz.ext_size_high << 32) | lz.ext_size_low), (int)check, threads, (unsigned long long)block_size, timeout, norm_after, micro_limit);
		s += b; if (warm) { s.pop_back(); s += ",\"warm_handle\":" + std::to_string(warm) + "}"; } return s;
	}
	uint64_t hash() const {
		uint64_t h = vg::hcomb(entry, use_preset ? 1000 + preset : 7);
		for (unsigned i = 0; i < nfilters; ++i) h = vg::hcomb(h, filters[i].id);
		for (int i = 0; i < 3; ++i) { h = vg::hcomb(h, delta[i].dist); h = vg::hcomb(h, bcj[i].start_offset + bcj_null[i]); }
		uint64_t a[] = {lz.dict_size, lz.lc, lz.lp, lz.pb, (uint64_t)lz.mode, lz.nice_len, (uint64_t)lz.mf, lz.depth, lz.ext_flags, lz.ext_size_low, lz.ext_size_high,
			(uint64_t)check, threads, block_size, timeout, norm_after, micro_limit};
		for (uint64_t v : a) h = vg::hcomb(h, v);
		if (!pdict.empty()) h = vg::hcomb(h, vg::hash_bytes(pdict.data(), pdict.size()));
		return h;
	}
};

static inline uint32_t draw_dict_size(vg::Case &c, bool allow_big) {
	// 4 KiB .. mostly <= 1 MiB; sometimes 16 MiB; both 2^n and odd sizes
	uint8_t b = c.byte();
	uint32_t d;
	if (b < 96) d = 4096;
	else if (b < 200) d = 1u << (12 + (b % 9));              // 4 KiB..1 MiB
	else if (b < 236) d = 4096 + c.u32() % (1u << 20);        // arbitrary value
	else if (b < 250 || !allow_big) d = (1u << (12 + (b % 9))) + (1u << (11 + (b % 9))); // 2^n + 2^(n-1)
	else d = 1u << 24;
	return d;
}

static const lzma_match_finder all_mf[] = {LZMA_MF_HC3, LZMA_MF_HC4, LZMA_MF_BT2, LZMA_MF_BT3, LZMA_MF_BT4};

static inline void draw_lzma_opts(vg::Case &c, lzma_options_lzma &o, bool allow_big) {
	memset(&o, 0, sizeof o);
	o.dict_size = draw_dict_size(c, allow_big);
	uint32_t lclp = c.u(15); // all (lc,lp) with lc+lp<=4: 15 pairs
	uint32_t lc = 0, lp = 0, k = 0; bool found = false;
	for (lc = 0; lc <= 4 && !found; ++lc) for (lp = 0; lc + lp <= 4; ++lp) { if (k++ == lclp) { found = true; break; } }
	if (found) --lc;
	if (c.chance(96)) { lc = 3; lp = 0; }
	o.lc = lc; o.lp = lp; o.pb = c.chance(96) ? 2 : c.u(5);
	o.mode = c.flag() ? LZMA_MODE_FAST : LZMA_MODE_NORMAL;
	uint8_t nb = c.byte();
	o.nice_len = nb < 40 ? 2 + (nb % 7) : (nb < 80 ? 273 - (nb % 5) : 2 + c.u(272));
	o.mf = all_mf[c.u(5)];
	uint8_t db = c.byte();
	o.depth = db < 100 ? 0 : (db < 160 ? 1 + (db % 4) : c.u(200));
}

struct DrawFlags { bool allow_big = true; bool allow_mt = true; uint32_t entries_mask = (1u << E_N) - 1; bool allow_norm_hook = true; bool big_timeout = false; /* 300 ms timed waits: only under virtual time */ };

static inline void draw_nonlast(vg::Case &c, Config &g, unsigned maxn) {
	unsigned n = c.small(maxn); if (n > maxn) n = maxn;
	unsigned nd = 0, nb = 0;
	for (unsigned i = 0; i < n; ++i) {
		if (c.u(3) == 0) { g.filters[g.nfilters].id = LZMA_FILTER_DELTA; g.delta[nd].type = LZMA_DELTA_TYPE_BYTE;
			uint8_t b = c.byte(); g.delta[nd].dist = b < 80 ? 1 + (b & 3) : (b < 100 ? 256 : 1 + c.u(256)); ++nd; g.has_delta = true; }
		else { lzma_vli id = bcj_ids[c.u(8)]; g.filters[g.nfilters].id = id; memset(&g.bcj[nb], 0, sizeof g.bcj[nb]);
			uint8_t b = c.byte(); uint32_t al = bcj_align(id);
			g.bcj_null[nb] = b < 64;
			g.bcj[nb].start_offset = b < 128 ? 0 : (b < 200 ? al * c.u(64) : (c.u32() / al) * al);
			++nb; g.has_bcj = true; }
		++g.nfilters;
	}
}

// Draw a configuration that the documentation defines as valid.
static inline void draw_config(vg::Case &c, Config &g, const DrawFlags &f = DrawFlags()) {
	// entry
	Entry cand[E_N]; unsigned nc = 0;
	for (unsigned e = 0; e < E_N; ++e) if ((f.entries_mask >> e & 1) && (e != E_STREAM_MT || f.allow_mt)) cand[nc++] = (Entry)e;
	g.entry = nc ? cand[c.u(nc)] : E_EASY;
	g.check = c.pick({LZMA_CHECK_CRC32, LZMA_CHECK_CRC64, LZMA_CHECK_SHA256, LZMA_CHECK_NONE});
	g.nfilters = 0; g.has_bcj = g.has_delta = false;
	const Entry e = g.entry;
	bool preset_ok = is_xz(e);
	g.use_preset = (e == E_EASY || e == E_EASY_BUF) ? true : (preset_ok ? c.chance(100) : false);
	{ uint8_t pb = c.byte(); uint32_t lvl = pb < 150 ? pb % 2 : (pb < 225 ? pb % 5 : (f.allow_big ? pb % 10 : pb % 7));
		g.preset = lvl | (c.chance(64) ? LZMA_PRESET_EXTREME : 0); }
	if (g.use_preset) {
		lzma_lzma_preset(&g.lz, g.preset);
		g.filters[0].id = LZMA_FILTER_LZMA2; g.nfilters = 1; // what the preset means; used by the matching raw comparisons
	} else {
		draw_lzma_opts(c, g.lz, f.allow_big);
		if (e == E_ALONE) { g.filters[0].id = LZMA_FILTER_LZMA1; g.nfilters = 1; }
		else if (e == E_MICROLZMA) { g.filters[0].id = LZMA_FILTER_LZMA1; g.nfilters = 1; }
		else {
			draw_nonlast(c, g, 3);
			lzma_vli last = LZMA_FILTER_LZMA2;
			if (is_raw(e)) { uint8_t b = c.byte(); last = b < 110 ? LZMA_FILTER_LZMA2 : (b < 200 ? LZMA_FILTER_LZMA1 : LZMA_FILTER_LZMA1EXT); }
			g.filters[g.nfilters++].id = last;
			if (last == LZMA_FILTER_LZMA1EXT) {
				g.lz.ext_flags = c.flag() ? LZMA_LZMA1EXT_ALLOW_EOPM : 0;
				// decoder side: size unknown is valid only when the end marker is written
				g.ext_known = !(g.lz.ext_flags & LZMA_LZMA1EXT_ALLOW_EOPM) || c.flag();
				g.lz.ext_size_low = UINT32_MAX; g.lz.ext_size_high = UINT32_MAX;
			}
			// preset dictionary only where the container can carry it: raw
			if (is_raw(e) && c.chance(70)) { uint32_t n = c.pick<uint32_t>({1, 7, 100, 4096, 5000, g.lz.dict_size / 2, g.lz.dict_size, g.lz.dict_size + 1000,
					/* longer than the encoder's whole window (dict + ~0.6 MiB): only the tail may be used */ g.lz.dict_size + (700u << 10), g.lz.dict_size * 2 + (1u << 20)});
				if (n > (3u << 20)) n = 3u << 20;
				vg::Recipe r; r.kind = c.flag() ? vg::RK_TEXT : vg::RK_COPY_EDITS; r.len = n; r.seed = c.byte(); r.alpha = 16; r.period = 30; g.pdict = vg::expand(r); }
		}
	}
	if (e == E_MICROLZMA) { g.micro_limit = c.chance(128) ? 6 + c.u(64) : 6 + c.u16(); }
	if (e == E_STREAM_MT) { g.threads = 1 + c.u(4); uint8_t b = c.byte();
		g.block_size = b < 64 ? 0 : (b < 200 ? 4096u << (b % 5) : 1 + c.u16() * 4); g.timeout = c.pick<uint32_t>({0, 0, 1, f.big_timeout ? 300u : 2u});
		if (g.block_size == 0 && !g.use_preset && g.lz.dict_size > (1u << 20)) g.block_size = 1u << 20; }
	if (f.allow_norm_hook && c.chance(90)) g.norm_after = c.pick<uint32_t>({1, 100, 4096, 5000, 70000, 300000});
	g.link();
}

// Input that shares content with the END of the preset dictionary (what both sides must keep when it is longer than the
// dictionary / window): a copy of its tail with a few edits.  Returns false if there is no preset dictionary.
static inline bool input_from_pdict_tail(vg::Case &c, const Config &g, std::vector<uint8_t> &in, uint32_t maxlen) {
	if (g.pdict.empty()) return false;
	uint32_t n = std::min<uint32_t>((uint32_t)g.pdict.size(), std::max<uint32_t>(16, c.len_exp(maxlen)));
	in.assign(g.pdict.end() - n, g.pdict.end());
	vg::Rng r(c.u32()); uint32_t edits = n / 200; for (uint32_t i = 0; i < edits; ++i) in[r.below(n)] ^= (uint8_t)(1 + r.below(255));
	return true;
}

// Cost governor: big inputs are not combined with the slowest option values (extreme presets,
// depth in the hundreds, thousands of tiny Blocks).  Applied after drawing, recorded in the description.
static inline void govern_cost(Config &g, size_t len) {
	if (len <= (96u << 10)) return;
	if (g.use_preset && (g.preset & LZMA_PRESET_EXTREME)) { g.preset &= ~LZMA_PRESET_EXTREME; lzma_lzma_preset(&g.lz, g.preset); }
	if (!g.use_preset) { if (g.lz.depth > 12) g.lz.depth = 12; if (len > (512u << 10) && g.lz.mode == LZMA_MODE_NORMAL && g.lz.nice_len > 64) g.lz.nice_len = 64; }
	if (g.entry == E_STREAM_MT && g.block_size && len / g.block_size > 48) g.block_size = len / 48 + 1;
	g.link();
}

// Set the hook so that normalize() triggers after ~norm_after bytes (0 disables).
static inline void apply_norm_hook(const Config &g) {
	if (!g.norm_after) { lzma_verif_mf_offset_bias = 0; return; }
	uint32_t cyc = g.lz.dict_size + 1;
	// natural: offset = cyc, normalise when read_pos + offset == UINT32_MAX
	uint64_t want = (uint64_t)UINT32_MAX - cyc - g.norm_after;
	if (want > UINT32_MAX - 2ull * cyc) want = UINT32_MAX - 2ull * cyc;
	lzma_verif_mf_offset_bias = (uint32_t)want;
}

// ---- initialisers ------------------------------------------------------------
static inline lzma_ret init_encoder(lzma_stream *s, Config &g) {
	g.link(); apply_norm_hook(g);
	switch (g.entry) {
	case E_EASY: return lzma_easy_encoder(s, g.preset, g.check);
	case E_STREAM: return lzma_stream_encoder(s, g.filters, g.check);
	case E_STREAM_MT: { lzma_mt mt; memset(&mt, 0, sizeof mt); mt.threads = g.threads; mt.block_size = g.block_size; mt.timeout = g.timeout;
		mt.check = g.check; if (g.use_preset) mt.preset = g.preset; else mt.filters = g.filters; return lzma_stream_encoder_mt(s, &mt); }
	case E_ALONE: return lzma_alone_encoder(s, &g.lz);
	case E_RAW: return lzma_raw_encoder(s, g.filters);
	case E_MICROLZMA: return lzma_microlzma_encoder(s, &g.lz);
	case E_BLOCK: {
		memset(&g.block, 0, sizeof g.block); g.block.version = 1; g.block.check = g.check; g.block.filters = g.filters;
		g.block.compressed_size = LZMA_VLI_UNKNOWN; g.block.uncompressed_size = LZMA_VLI_UNKNOWN;
		lzma_ret r = lzma_block_header_size(&g.block); if (r != LZMA_OK) return r;
		g.block_header.assign(g.block.header_size, 0);
		r = lzma_block_header_encode(&g.block, g.block_header.data()); if (r != LZMA_OK) return r;
		return lzma_block_encoder(s, &g.block); }
	default: return LZMA_PROG_ERROR;
	}
}

// The matching decoder for what init_encoder()/encode_buf() produced.
// For E_BLOCK* `data` must start with the Block Header (as returned by encode_all()).
static inline lzma_ret init_decoder(lzma_stream *s, Config &g, uint64_t memlimit = UINT64_MAX, uint32_t flags = 0) {
	g.link();
	switch (g.entry) {
	case E_EASY: case E_STREAM: case E_STREAM_MT: case E_EASY_BUF: case E_STREAM_BUF: return lzma_stream_decoder(s, memlimit, flags);
	case E_ALONE: return lzma_alone_decoder(s, memlimit);
	case E_RAW: case E_RAW_BUF: return lzma_raw_decoder(s, g.filters);
	default: return LZMA_PROG_ERROR;
	}
}

struct Encoded { lzma_ret ret = LZMA_OK; std::vector<uint8_t> bytes; uint64_t total_in = 0; bool capped = false; };

// Encode everything with the given schedule (multi-call entries) or the single-call function.
static inline Encoded encode_all(Config &g, const std::vector<uint8_t> &in, const drv::Schedule &sch, const lzma_allocator *al = NULL, size_t out_cap = 48u << 20) {
	Encoded E; g.link(); apply_norm_hook(g);
	if (is_buf(g.entry)) {
		size_t bound;
		if (g.entry == E_BLOCK_BUF) { memset(&g.block, 0, sizeof g.block); g.block.version = 1; g.block.check = g.check; g.block.filters = g.filters; bound = lzma_block_buffer_bound(in.size()); }
		else if (g.entry == E_RAW_BUF) bound = in.size() + in.size() / 2 + 4096; // no bound function for raw
		else bound = lzma_stream_buffer_bound(in.size());
		E.bytes.assign(bound ? bound : 1, 0xA5); size_t pos = 0;   // a caller's buffer is not zero-filled: whatever the encoder leaves unwritten inside its output shows
		static const uint8_t z[1] = {0};
		const uint8_t *ip = in.empty() ? z : in.data();
		switch (g.entry) {
		case E_EASY_BUF: E.ret = lzma_easy_buffer_encode(g.preset, g.check, al, ip, in.size(), E.bytes.data(), &pos, bound); break;
		case E_STREAM_BUF: E.ret = lzma_stream_buffer_encode(g.filters, g.check, al, ip, in.size(), E.bytes.data(), &pos, bound); break;
		case E_BLOCK_BUF: E.ret = lzma_block_buffer_encode(&g.block, al, ip, in.size(), E.bytes.data(), &pos, bound); break;
		case E_RAW_BUF: E.ret = lzma_raw_buffer_encode(g.filters, al, ip, in.size(), E.bytes.data(), &pos, bound); break;
		default: break;
		}
		E.bytes.resize(pos); E.total_in = in.size();
		if (E.ret == LZMA_OK) E.ret = LZMA_STREAM_END; // normalise: success
		lzma_verif_mf_offset_bias = 0;
		return E;
	}
	lzma_stream s = LZMA_STREAM_INIT; s.allocator = al;
	if (g.warm) {
		// "warm handle": the same lzma_stream has just encoded another (small) input with the same settings and is re-initialised
		// without lzma_end(), as xz does for the next file: everything per-stream must start afresh
		if (init_encoder(&s, g) == LZMA_OK) {
			uint8_t w[300]; for (size_t i = 0; i < sizeof w; ++i) w[i] = (uint8_t)(i * 7 + g.warm);
			uint8_t wo[4096]; s.next_in = w; s.avail_in = (g.warm & 2) ? sizeof w : 40; s.next_out = wo; s.avail_out = sizeof wo;
			lzma_ret wr = lzma_code(&s, (g.warm & 1) ? LZMA_FINISH : LZMA_RUN);   // finished or abandoned in the middle
			for (int k = 0; k < 64 && wr == LZMA_OK && (g.warm & 1); ++k) { s.next_out = wo; s.avail_out = sizeof wo; wr = lzma_code(&s, LZMA_FINISH); }
			vg::count("warm_encoder_handle");
		}
	}
	lzma_ret r = init_encoder(&s, g);
	if (r != LZMA_OK) { E.ret = r; lzma_end(&s); lzma_verif_mf_offset_bias = 0; return E; }
	drv::Opts o; o.out_cap = out_cap; if (g.entry == E_STREAM_MT) { o.idle_limit = 1u << 30; if (g.timeout) { o.small_call_budget = 1500; o.extra_calls = 100000; } /* native timed waits are real time */ }
	if (g.entry == E_MICROLZMA) {
		// single lzma_code(LZMA_FINISH) call with the whole input and a limited output buffer
		E.bytes.resize(g.micro_limit); static uint8_t z[1];
		s.next_in = in.empty() ? z : in.data(); s.avail_in = in.size(); s.next_out = E.bytes.data(); s.avail_out = E.bytes.size();
		E.ret = lzma_code(&s, LZMA_FINISH); E.total_in = s.total_in; E.bytes.resize(s.total_out);
		lzma_end(&s); lzma_verif_mf_offset_bias = 0; return E;
	}
	drv::Result R = drv::run(&s, in.data(), in.size(), sch, o);
	lzma_end(&s); lzma_verif_mf_offset_bias = 0;
	E.ret = R.ret; E.total_in = R.total_in; E.capped = R.capped;
	if (g.entry == E_BLOCK) { E.bytes = g.block_header; E.bytes.insert(E.bytes.end(), R.out.begin(), R.out.end()); }
	else E.bytes.swap(R.out);
	return E;
}

// Decode what encode_all() made with the matching liblzma decoder.
static inline drv::Result decode_matching(Config &g, const std::vector<uint8_t> &bytes, const drv::Schedule &sch, uint64_t plain_len, const lzma_allocator *al = NULL, size_t out_cap = 64u << 20) {
	drv::Result R; lzma_stream s = LZMA_STREAM_INIT; s.allocator = al; g.link();
	drv::Opts o; o.out_cap = out_cap;
	if (is_block(g.entry)) {
		lzma_block b; memset(&b, 0, sizeof b); lzma_filter fl[LZMA_FILTERS_MAX + 1]; b.filters = fl; b.version = 1; b.check = g.check;
		if (bytes.empty()) { R.ret = LZMA_DATA_ERROR; return R; }
		b.header_size = lzma_block_header_size_decode(bytes[0]);
		if (b.header_size > bytes.size()) { R.ret = LZMA_DATA_ERROR; return R; }
		lzma_ret r = lzma_block_header_decode(&b, al, bytes.data());
		if (r != LZMA_OK) { R.ret = r; return R; }
		r = lzma_block_decoder(&s, &b);
		if (r != LZMA_OK) { R.ret = r; lzma_filters_free(fl, al); return R; }
		R = drv::run(&s, bytes.data() + b.header_size, bytes.size() - b.header_size, sch, o);
		R.total_in += b.header_size;
		lzma_end(&s); lzma_filters_free(fl, al); return R;
	}
	lzma_ret r;
	if (g.entry == E_MICROLZMA) r = lzma_microlzma_decoder(&s, bytes.size(), plain_len, true, g.lz.dict_size);
	else r = init_decoder(&s, g);
	if (r != LZMA_OK) { R.ret = r; lzma_end(&s); return R; }
	{ drv::Opts om = o; om.input_beyond_declared_size = g.entry == E_MICROLZMA; R = drv::run(&s, bytes.data(), bytes.size(), sch, om); }
	lzma_end(&s); return R;
}

} // namespace ec
