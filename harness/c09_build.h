// c09_build.h - generator side of t_c09: files whose HEADERS declare dictionary sizes over the
// whole range while the payload stays tiny.  .xz files are assembled Block by Block (real encoder
// with a 4 KiB dictionary or stored LZMA2 chunks), then the LZMA2 dictionary-size byte of the Block
// Header is patched to the declared value and the header CRC32 is recomputed with ref/crc.h.
// A stream encoded with a small dictionary is valid for every larger declared dictionary.
#pragma once
#include <lzma.h>
#include "vgen.h"
#include "drv.h"
#include "ref/crc.h"

namespace c09 {
using namespace vg;

// true with probability ~num/256 and FALSE when the case bytes have run out (Case::chance() is true then): rare = not the simplest choice
static inline bool rare(Case &c, unsigned num) { return num && c.byte() > 255u - num; }

static inline uint32_t dict_of(uint8_t b) { if (b >= 40) return UINT32_MAX; return (2u | (b & 1u)) << (b / 2 + 11); }

// declared dictionary byte: same as previous Block / 4 KiB..8 MiB / 12..64 MiB / (only in "big" files) 96 MiB..4 GiB-1
static inline uint8_t draw_dict_byte(Case &c, bool have_prev, uint8_t prev, bool allow_big, uint8_t maxb) {
	uint8_t k = c.byte(), b;
	if (have_prev && k < 90) b = prev;
	else if (allow_big && k >= 200) b = (uint8_t)(29 + c.u(12));   // 96 MiB .. 4 GiB-1: only in the few % of files flagged big (ASan pays ~0.2 s per GiB)
	else if (k < 248) b = (uint8_t)c.u(23);                      // 4 KiB .. 8 MiB
	else b = (uint8_t)(23 + c.u(6));                             // 12 .. 64 MiB
	return b > maxb ? maxb : b;
}

struct Blk {
	uint8_t dict_byte = 0; unsigned nnon = 0; lzma_vli non_id[3] = {0, 0, 0}; uint32_t delta_dist[3] = {1, 1, 1};
	uint32_t plain = 0; uint64_t comp = 0; bool sizes = true, stored = true;
	uint64_t need_est = 0;   // lzma_raw_decoder_memusage(declared chain): generator-side hint only
	uint64_t tot_est = 0;    // + compressed + uncompressed size: what one thread of the threaded decoder holds, roughly
};
struct XzFile {
	std::vector<uint8_t> bytes; std::vector<Blk> blk; unsigned streams = 0; bool big = false;
	uint64_t max_need_est = 0, max_tot_est = 0, plain_total = 0;
	std::string desc; uint64_t hash = 0;
};

static inline void put32(uint8_t *p, uint32_t v) { p[0] = (uint8_t)v; p[1] = (uint8_t)(v >> 8); p[2] = (uint8_t)(v >> 16); p[3] = (uint8_t)(v >> 24); }
static inline void put64(uint8_t *p, uint64_t v) { put32(p, (uint32_t)v); put32(p + 4, (uint32_t)(v >> 32)); }

// Block Header: size byte, flags, [compressed size], [uncompressed size], filter flags..., padding, CRC32
static inline void patch_lzma2_dict(uint8_t *h, size_t hs, uint8_t newbyte) {
	size_t p = 2; const uint8_t fl = h[1];
	auto skipvli = [&]() { while (p < hs && (h[p] & 0x80)) ++p; ++p; };
	if (fl & 0x40) skipvli();
	if (fl & 0x80) skipvli();
	unsigned nf = (fl & 3u) + 1;
	for (unsigned i = 0; i < nf; ++i) {
		if (p + 2 > hs - 4 || (h[p] & 0x80)) harness_bug("c09: cannot parse own Block Header");
		uint8_t id = h[p++], sz = h[p++];
		if (id == 0x21) { if (sz != 1 || p >= hs - 4) harness_bug("c09: LZMA2 props"); h[p] = newbyte; put32(h + hs - 4, ref::crc32(h, hs - 4)); return; }
		p += sz;
	}
	harness_bug("c09: no LZMA2 filter in own Block Header");
}

static const lzma_vli non_ids[] = {LZMA_FILTER_DELTA, LZMA_FILTER_X86, LZMA_FILTER_ARM64, LZMA_FILTER_POWERPC, LZMA_FILTER_RISCV, LZMA_FILTER_ARMTHUMB};

// the chain as the decoder will see it (declared dictionary); opt storage supplied by the caller
struct DeclChain { lzma_filter f[LZMA_FILTERS_MAX + 1]; lzma_options_lzma lz; lzma_options_delta dl[3]; };
static inline void declared_chain(const Blk &b, DeclChain &d) {
	memset(&d.lz, 0, sizeof d.lz); d.lz.dict_size = dict_of(b.dict_byte); d.lz.lc = 3; d.lz.lp = 0; d.lz.pb = 2;
	unsigned n = 0;
	for (unsigned i = 0; i < b.nnon; ++i) { d.f[n].id = b.non_id[i]; d.f[n].options = NULL;
		if (b.non_id[i] == LZMA_FILTER_DELTA) { d.dl[i].type = LZMA_DELTA_TYPE_BYTE; d.dl[i].dist = b.delta_dist[i]; d.f[n].options = &d.dl[i]; } ++n; }
	d.f[n].id = LZMA_FILTER_LZMA2; d.f[n].options = &d.lz; ++n;
	d.f[n].id = LZMA_VLI_UNKNOWN; d.f[n].options = NULL;
}

struct BuildOpts { uint8_t maxb = 40; unsigned max_blocks = 8; unsigned big_payload_chance = 8; bool multi_stream = true;
	// "uniform": what a threaded encoder writes - 4..max_blocks stored Blocks of one size (32..160 KiB) with sizes in the headers, one
	// dictionary size for most of them and a bigger one for a few (so that the threaded decoder's caches come under pressure)
	bool uniform = false; };

static inline void build_xz(Case &c, XzFile &F, const BuildOpts &bo) {
	unsigned ns = (bo.multi_stream && rare(c, 36)) ? 2 + c.u(2) : 1;
	F.big = rare(c, 12);
	unsigned big_payloads = rare(c, bo.big_payload_chance) ? 1 + c.u(3) : 0;   // Blocks of 64..256 KiB: few (cost), they matter for the threaded decoder's buffers
	Rng fill(c.u16() + 1u);
	uint8_t prev = 0; bool have_prev = false;
	F.streams = ns; F.desc = "\"streams\":" + std::to_string(ns) + ",\"blocks\":[";
	static const uint8_t nothing[1] = {0};
	std::vector<uint8_t> plain;
	for (unsigned s = 0; s < ns; ++s) {
		lzma_check chk = c.pick({LZMA_CHECK_CRC32, LZMA_CHECK_CRC64, LZMA_CHECK_SHA256, LZMA_CHECK_NONE});
		lzma_stream_flags sf; memset(&sf, 0, sizeof sf); sf.version = 0; sf.check = chk;
		size_t at = F.bytes.size(); F.bytes.resize(at + LZMA_STREAM_HEADER_SIZE);
		if (lzma_stream_header_encode(&sf, &F.bytes[at]) != LZMA_OK) harness_bug("c09: stream header");
		lzma_index *idx = lzma_index_init(NULL); if (!idx) harness_bug("c09: index_init");
		unsigned nb = 1 + c.small(bo.max_blocks - 1); if (nb > bo.max_blocks) nb = bo.max_blocks;
		if (rare(c, 8)) nb = 0;
		uint32_t uni_plain = 0; uint8_t uni_dict = 0;
		if (bo.uniform) { nb = 4 + c.u(bo.max_blocks - 3); uni_plain = (32u << 10) + c.u32() % (128u << 10); uni_dict = (uint8_t)c.u(9); }
		for (unsigned k = 0; k < nb; ++k) {
			Blk B;
			B.dict_byte = draw_dict_byte(c, have_prev, prev, F.big, bo.maxb); prev = B.dict_byte; have_prev = true;
			uint8_t fb = c.byte();
			B.nnon = fb < 190 ? 0 : (fb < 235 ? 1 : (fb < 250 ? 2 : 3));
			for (unsigned i = 0; i < B.nnon; ++i) { B.non_id[i] = non_ids[c.u(6)]; B.delta_dist[i] = 1 + c.u(256); }
			uint8_t lb = c.byte();
			// equal-sized Blocks are what the threaded encoder writes (and what lets the threaded decoder's buffer cache fill up)
			if (!F.blk.empty() && lb >= 200) B.plain = F.blk.back().plain;
			else if (big_payloads && lb < 128) { --big_payloads; B.plain = (64u << 10) + c.u32() % (192u << 10); } else B.plain = c.len_exp(1u << 13);
			bool rnd = c.flag();
			B.sizes = !rare(c, 36);
			B.stored = B.nnon == 0 && !rare(c, 56);
			if (bo.uniform) { B.plain = uni_plain; B.nnon = 0; B.sizes = true; B.stored = true; B.dict_byte = (uint8_t)std::min<unsigned>(bo.maxb, uni_dict + ((fb >= 176 && k >= 3) ? 8 + lb % 10 : 0)); prev = B.dict_byte; }
			plain.resize(B.plain);
			if (rnd) { for (size_t q = 0; q < plain.size(); q += 8) { uint64_t v = fill.next(); memcpy(&plain[q], &v, std::min<size_t>(8, plain.size() - q)); } }
			else if (!plain.empty()) memset(plain.data(), 'a' + (int)(k % 26), plain.size());
			// the chain really used for encoding: same filters, 4 KiB dictionary, fastest options
			lzma_options_lzma lz; if (lzma_lzma_preset(&lz, 0)) harness_bug("c09: preset"); lz.dict_size = 4096; lz.nice_len = 16; lz.depth = 1;
			lzma_options_delta dl[3]; lzma_filter fl[LZMA_FILTERS_MAX + 1]; unsigned n = 0;
			for (unsigned i = 0; i < B.nnon; ++i) { fl[n].id = B.non_id[i]; fl[n].options = NULL;
				if (B.non_id[i] == LZMA_FILTER_DELTA) { dl[i].type = LZMA_DELTA_TYPE_BYTE; dl[i].dist = B.delta_dist[i]; fl[n].options = &dl[i]; } ++n; }
			fl[n].id = LZMA_FILTER_LZMA2; fl[n].options = &lz; ++n; fl[n].id = LZMA_VLI_UNKNOWN; fl[n].options = NULL;
			lzma_block b; memset(&b, 0, sizeof b); b.version = 0; b.check = chk; b.filters = fl;
			size_t bound = lzma_block_buffer_bound(B.plain); if (!bound) harness_bug("c09: block bound");
			size_t bat = F.bytes.size(); F.bytes.resize(bat + bound); size_t op = bat;
			const uint8_t *ip = plain.empty() ? nothing : plain.data();
			lzma_ret er = B.stored ? lzma_block_uncomp_encode(&b, ip, B.plain, F.bytes.data(), &op, bat + bound)
				: lzma_block_buffer_encode(&b, NULL, ip, B.plain, F.bytes.data(), &op, bat + bound);
			if (er != LZMA_OK) harness_bug("c09: block encode: %s", drv::retname(er));
			F.bytes.resize(op);
			B.comp = b.compressed_size;
			uint32_t hs = b.header_size;
			// lzma_block_buffer_encode() falls back to stored chunks with a plain LZMA2 chain when the data is incompressible
			if (B.nnon && (F.bytes[bat + 1] & 3u) == 0) { B.nnon = 0; fl[0].id = LZMA_FILTER_LZMA2; fl[0].options = &lz; fl[1].id = LZMA_VLI_UNKNOWN; fl[1].options = NULL; B.stored = true; }
			if (!B.sizes) {
				uint8_t tmp[LZMA_BLOCK_HEADER_SIZE_MAX];
				b.compressed_size = LZMA_VLI_UNKNOWN; b.uncompressed_size = LZMA_VLI_UNKNOWN;
				if (lzma_block_header_size(&b) != LZMA_OK || b.header_size > hs) harness_bug("c09: header size");
				if (lzma_block_header_encode(&b, tmp) != LZMA_OK) harness_bug("c09: header encode");
				F.bytes.erase(F.bytes.begin() + bat + b.header_size, F.bytes.begin() + bat + hs);
				memcpy(&F.bytes[bat], tmp, b.header_size); hs = b.header_size;
			}
			patch_lzma2_dict(&F.bytes[bat], hs, B.dict_byte);
			lzma_vli unp = hs + B.comp + lzma_check_size(chk);
			if (lzma_index_append(idx, NULL, unp, B.plain) != LZMA_OK) harness_bug("c09: index append");
			DeclChain dc; declared_chain(B, dc);
			B.need_est = lzma_raw_decoder_memusage(dc.f);
			B.tot_est = B.need_est + ((B.comp + 3) & ~3ull) + lzma_check_size(chk) + B.plain + 64;
			F.max_need_est = std::max(F.max_need_est, B.need_est); F.max_tot_est = std::max(F.max_tot_est, B.tot_est); F.plain_total += B.plain;
			F.hash = hcomb(F.hash, hcomb(hcomb(B.dict_byte, B.nnon * 4 + B.sizes * 2 + B.stored), hcomb(B.plain, B.comp)));
			if (F.blk.size() < 10) F.desc += (F.blk.empty() ? "" : ",") + ("[" + std::to_string(B.dict_byte) + "," + std::to_string(B.nnon) + "," + std::to_string(B.plain) + "," + std::to_string(B.comp) + "," + (B.sizes ? "1" : "0") + "," + (B.stored ? "1" : "0") + "]");
			F.blk.push_back(B);
		}
		size_t isz = (size_t)lzma_index_size(idx); size_t iat = F.bytes.size(); F.bytes.resize(iat + isz); size_t ipos = iat;
		if (lzma_index_buffer_encode(idx, F.bytes.data(), &ipos, iat + isz) != LZMA_OK || ipos != iat + isz) harness_bug("c09: index encode");
		lzma_index_end(idx, NULL);
		sf.backward_size = isz; size_t fat = F.bytes.size(); F.bytes.resize(fat + LZMA_STREAM_HEADER_SIZE);
		if (lzma_stream_footer_encode(&sf, &F.bytes[fat]) != LZMA_OK) harness_bug("c09: stream footer");
		if (ns > 1) { unsigned pad = 4 * c.u(4); F.bytes.resize(F.bytes.size() + pad, 0); F.hash = hcomb(F.hash, pad); }
		F.hash = hcomb(F.hash, (uint64_t)chk + 100 * nb);
	}
	F.desc += "],\"fmt\":\"[dict_byte,nonlast,plain,comp,sizes_in_header,stored]\",\"file_size\":" + std::to_string(F.bytes.size());
}

struct OneFile { std::vector<uint8_t> bytes; uint64_t hash = 0; std::string desc; unsigned members = 1; bool big = false; };

// .lzma: real encoder with a 4 KiB dictionary; then the header's dictionary field is overwritten
static inline void build_alone(Case &c, OneFile &F, bool picky_form) {
	lzma_options_lzma lz; if (lzma_lzma_preset(&lz, 0)) harness_bug("c09: preset"); lz.dict_size = 4096; lz.nice_len = 16; lz.depth = 1;
	static const uint8_t lclp[][2] = {{3, 0}, {0, 0}, {0, 4}, {4, 0}, {1, 2}, {2, 2}};
	unsigned q = c.u(6); lz.lc = lclp[q][0]; lz.lp = lclp[q][1]; lz.pb = c.u(5);
	Recipe r; r.kind = c.flag() ? RK_TEXT : RK_RANDOM; r.len = c.len_exp(1u << 14); r.seed = c.u16();
	std::vector<uint8_t> in = expand(r);
	lzma_stream s = LZMA_STREAM_INIT;
	if (lzma_alone_encoder(&s, &lz) != LZMA_OK) harness_bug("c09: alone encoder");
	drv::Result R = drv::run(&s, in.data(), in.size(), drv::Schedule()); lzma_end(&s);
	if (R.ret != LZMA_STREAM_END || R.out.size() < 13) harness_bug("c09: alone encode");
	F.bytes.swap(R.out);
	F.big = rare(c, 12);
	uint32_t d; uint8_t k = c.byte();
	if (picky_form || k < 170) { uint8_t b = draw_dict_byte(c, false, 0, F.big, 40); d = dict_of(b); }
	else if (k < 235) d = 4096 + c.u32() % (16u << 20);
	else d = 4096 + c.u32() % (F.big ? 0xFFFFF000u : (64u << 20));
	put32(&F.bytes[1], d);
	bool known = c.flag(); if (known) put64(&F.bytes[5], in.size());
	F.hash = hcomb(hcomb(d, lz.lc * 100 + lz.lp * 10 + lz.pb), hcomb(r.hash(), known));
	F.desc = "\"dict\":" + std::to_string(d) + ",\"lclppb\":[" + std::to_string(lz.lc) + "," + std::to_string(lz.lp) + "," + std::to_string(lz.pb) + "],\"plain\":" + std::to_string(in.size()) + ",\"known_size\":" + (known ? "true" : "false");
}

// .lz: members assembled by hand around a raw LZMA1 stream (lc=3 lp=0 pb=2, end marker), trailer CRC32 from ref/crc.h
static inline void build_lzip(Case &c, OneFile &F) {
	unsigned nm = rare(c, 60) ? 2 + c.u(2) : 1; F.members = nm; F.big = rare(c, 12);
	F.desc = "\"members\":[";
	for (unsigned m = 0; m < nm; ++m) {
		lzma_options_lzma lz; if (lzma_lzma_preset(&lz, 0)) harness_bug("c09: preset"); lz.dict_size = 4096; lz.nice_len = 16; lz.depth = 1; lz.lc = 3; lz.lp = 0; lz.pb = 2;
		lzma_filter fl[2] = {{LZMA_FILTER_LZMA1, &lz}, {LZMA_VLI_UNKNOWN, NULL}};
		Recipe r; r.kind = c.flag() ? RK_TEXT : RK_RANDOM; r.len = c.len_exp(1u << 13); r.seed = c.u16();
		std::vector<uint8_t> in = expand(r); static const uint8_t nothing[1] = {0};
		size_t cap = in.size() * 2 + 1024; size_t at = F.bytes.size(); F.bytes.resize(at + 6 + cap + 20); size_t pos = at + 6;
		if (lzma_raw_buffer_encode(fl, NULL, in.empty() ? nothing : in.data(), in.size(), F.bytes.data(), &pos, at + 6 + cap) != LZMA_OK) harness_bug("c09: raw LZMA1 encode");
		uint8_t k = c.byte(); unsigned b2 = k < 215 ? 12 + c.u(12) : (k < 245 || !F.big ? 24 + c.u(3) : 27 + c.u(3)); unsigned fr = b2 == 12 ? 0 : c.u(8);
		uint8_t *h = &F.bytes[at]; h[0] = 'L'; h[1] = 'Z'; h[2] = 'I'; h[3] = 'P'; h[4] = 1; h[5] = (uint8_t)(b2 | (fr << 5));
		put32(&F.bytes[pos], ref::crc32_fast(in.data(), in.size())); put64(&F.bytes[pos + 4], in.size()); put64(&F.bytes[pos + 12], pos + 20 - at);
		F.bytes.resize(pos + 20);
		F.hash = hcomb(F.hash, hcomb(h[5], r.hash()));
		F.desc += (m ? "," : "") + ("[" + std::to_string(b2) + "," + std::to_string(fr) + "," + std::to_string(in.size()) + "]");
	}
	F.desc += "],\"fmt\":\"[log2,frac,plain]\"";
}

// .xz file with dummy payload and big Indexes (for the file-info decoder: it never reads the payload)
static inline void build_dummy_xz(Case &c, std::vector<uint8_t> &f, unsigned &streams, uint64_t &records, std::string &desc, uint64_t &hash) {
	unsigned ns = 1 + c.small(4); if (ns > 5) ns = 5; streams = ns; records = 0; Rng g(c.u16() + 7u);
	desc = "\"streams\":[";
	for (unsigned s = 0; s < ns; ++s) {
		unsigned nb = c.small(30); uint8_t k = c.byte(); if (k < 40) nb = 505 + c.u(20); else if (k < 70) nb = 600 + c.u(2500);
		lzma_stream_flags sf; memset(&sf, 0, sizeof sf); sf.check = c.pick({LZMA_CHECK_NONE, LZMA_CHECK_CRC32, LZMA_CHECK_CRC64, LZMA_CHECK_SHA256});
		size_t at = f.size(); f.resize(at + 12); if (lzma_stream_header_encode(&sf, &f[at]) != LZMA_OK) harness_bug("c09: stream header");
		lzma_index *idx = lzma_index_init(NULL); if (!idx) harness_bug("c09: index_init");
		size_t payload = 0;
		for (unsigned b = 0; b < nb; ++b) { lzma_vli unp = 5 + g.below(12), unc = g.below(3) ? g.below(100000) : (g.next() >> 24);
			if (lzma_index_append(idx, NULL, unp, unc) != LZMA_OK) harness_bug("c09: index append"); payload += (size_t)((unp + 3) & ~(lzma_vli)3); }
		f.resize(f.size() + payload, 0x5A);
		size_t isz = (size_t)lzma_index_size(idx), iat = f.size(); f.resize(iat + isz); size_t ip = iat;
		if (lzma_index_buffer_encode(idx, f.data(), &ip, iat + isz) != LZMA_OK) harness_bug("c09: index encode");
		lzma_index_end(idx, NULL);
		sf.backward_size = isz; size_t fat = f.size(); f.resize(fat + 12); if (lzma_stream_footer_encode(&sf, &f[fat]) != LZMA_OK) harness_bug("c09: footer");
		unsigned pad = 4 * c.u(4); f.resize(f.size() + pad, 0);
		records += nb; hash = hcomb(hash, hcomb(nb, pad + 64 * (unsigned)sf.check));
		desc += (s ? "," : "") + std::to_string(nb);
	}
	desc += "],\"file_size\":" + std::to_string(f.size());
}

} // namespace c09
