// t_c04.cc - C04: no byte string given to a decoding or parsing entry point makes it misbehave.
//
// case = 8 header bytes + input bytes:
//   [0] entry point   [1] decoder flags   [2] memory-limit mode   [3],[4] slicing seed (0 = one shot)
//   [5] p1  [6] p2  [7] p3  (entry specific: threads, Check ID, sizes, chain, action, output cap ...)
// Oracle: sanitizers/asserts (automatic); allocator live table balanced after lzma_end / lzma_index_end /
// lzma_filters_free, no double/unknown free; every return value of every call within the set the API headers
// document for that function; bounded number of calls (driver bound, starvation => told within a few calls);
// exact-size input/output windows (c04_drv.h), input unmodified; documented post-conditions of failed calls
// (pointers NULL, positions untouched); decoded structures used only after success.
// Not asserted: *which* error a bad input gets, decoded content (C03/C16), memory-limit accuracy (C09).
#include "vgen.h"
#include "drv.h"
#include "common.h"
#include "alloc.h"
#include "c04_drv.h"
#include "c04_fix.h"
#include "ref/lzma_adv.h"
#include <sys/stat.h>

using namespace vg;
using namespace c04;

static va::Alloc *g_al;
static const lzma_allocator *AL() { if (!g_al) { g_al = new va::Alloc(); g_al->cap = 256ull << 20; } return &g_al->a; }
extern "C" size_t vfresh_max(void) { return 160; }

enum Entry { E_STREAM, E_STREAM_MT, E_AUTO, E_ALONE, E_LZIP, E_MICROLZMA, E_RAW, E_BLOCK, E_INDEX, E_INDEX_BUF, E_FILE_INFO,
	E_BLOCK_HEADER, E_STREAM_HEADER, E_STREAM_FOOTER, E_FILTER_FLAGS, E_PROPERTIES, E_VLI, E_STR_TO_FILTERS, E_STR_LIST,
	E_STREAM_BUF, E_BLOCK_BUF, E_RAW_BUF, E_N };
static const char *const entry_names[] = {"stream", "stream_mt", "auto", "alone", "lzip", "microlzma", "raw", "block", "index", "index_buf", "file_info",
	"block_header", "stream_header", "stream_footer", "filter_flags", "properties", "vli", "str_to_filters", "str_list", "stream_buf", "block_buf", "raw_buf"};
static const unsigned HDR = 8;

struct Params {
	unsigned entry; uint8_t fb, mem, s0, s1, p1, p2, p3;
	uint32_t dflags = 0; bool bad_flag = false;
	uint64_t memlimit = UINT64_MAX; bool raise = false;
	drv::Schedule sch; lzma_action fin = LZMA_FINISH; size_t out_cap = 1u << 20;
	uint64_t seed = 0;
};

static void decode_params(Case &c, Params &P) {
	P.entry = c.byte() % E_N; P.fb = c.byte(); P.mem = c.byte(); P.s0 = c.byte(); P.s1 = c.byte(); P.p1 = c.byte(); P.p2 = c.byte(); P.p3 = c.byte();
	P.seed = mix64(((uint64_t)P.s0 << 8 | P.s1) * 0x10001 + ((uint64_t)P.p1 << 40) + ((uint64_t)P.p2 << 48) + ((uint64_t)P.p3 << 56));
	P.dflags = P.fb & 0x3F;              // the six decoder flags are the low six bits (container.h)
	if ((P.fb & 0xC0) == 0xC0) { P.bad_flag = true; P.dflags |= 0x40u << (P.p3 % 26); }
	switch (P.mem % 6) { case 1: P.memlimit = 1; break; case 2: P.memlimit = 1u << 15; break; case 3: P.memlimit = 1; P.raise = true; break; case 4: P.memlimit = 1u << 20; break; default: P.memlimit = UINT64_MAX; break; }
	if (P.s0 || P.s1) { uint8_t buf[64]; Rng g(((uint64_t)P.s0 << 8) | P.s1); for (auto &b : buf) b = g.byte(); buf[0] = P.s0; Case sc(buf, sizeof buf); P.sch = drv::draw_schedule(sc, true); }
	P.fin = (P.p3 & 0xC0) == 0xC0 ? LZMA_RUN : LZMA_FINISH;
	static const size_t caps[8] = {1u << 20, 1u << 20, 1u << 16, 4096, 300, 17, 1, 0};
	P.out_cap = caps[P.p2 >> 5];
}

static std::string describe(const Params &P, size_t n) {
	char b[320]; snprintf(b, sizeof b, "{\"entry\":\"%s\",\"flags\":%u,\"memlimit\":\"%llx\",\"raise\":%d,\"final\":\"%s\",\"out_cap\":%zu,\"p\":[%u,%u,%u],\"input\":%zu,\"schedule\":", entry_names[P.entry], P.dflags,
		(unsigned long long)P.memlimit, (int)P.raise, P.fin == LZMA_RUN ? "RUN" : "FINISH", P.out_cap, P.p1, P.p2, P.p3, n);
	return std::string(b) + P.sch.describe() + "}";
}

// extend the JSON description of the running case
static void add_desc(const char *key, const std::string &val) { std::string &d = g_stats.current; if (!d.empty() && d.back() == '}') { d.pop_back(); d += std::string(",\"") + key + "\":" + jstr(val) + "}"; } }

static void balance(const char *where) {
	if (!g_al) return;
	if (g_al->double_free || g_al->unknown_free) violation("C04:allocator-double-or-unknown-free", "%s: double_free=%d unknown_free=%d", where, (int)g_al->double_free, (int)g_al->unknown_free);
	if (!g_al->balanced()) { uint64_t lb = g_al->live_bytes; size_t nb = g_al->live.size(); g_al->drop_all(); violation("C04:leak", "%s: %zu blocks / %llu bytes still allocated after everything was freed", where, nb, (unsigned long long)lb); }
}

// ---------------------------------------------------------------- multi-call decoders through the exact-window driver
struct RunCtx { const char *fn; uint32_t mask; bool raise = false; unsigned raises = 0; bool bound = false; };
static bool run_hook(lzma_stream *s, lzma_ret r, void *a) {
	RunCtx *x = (RunCtx *)a;
	check_code(x->fn, r, x->mask);
	if (r == LZMA_NO_CHECK || r == LZMA_UNSUPPORTED_CHECK || r == LZMA_GET_CHECK) {
		// check.h: lzma_get_check() is defined exactly here
		const unsigned ck = (unsigned)lzma_get_check(s);
		if (ck > LZMA_CHECK_ID_MAX || (r == LZMA_NO_CHECK && ck != LZMA_CHECK_NONE) || (r == LZMA_UNSUPPORTED_CHECK && lzma_check_is_supported((lzma_check)ck)))
			violation("C04:get-check", "%s: lzma_get_check() = %u right after %s", x->fn, ck, drv::retname(r));
	}
	if (r == LZMA_MEMLIMIT_ERROR && x->raise) {
		const uint64_t need = lzma_memusage(s), lim = lzma_memlimit_get(s);
		if (need == 0 || lim == 0) violation("C04:memlimit-protocol", "%s: after LZMA_MEMLIMIT_ERROR lzma_memusage()=%llu lzma_memlimit_get()=%llu", x->fn, (unsigned long long)need, (unsigned long long)lim);
		if (need <= lim) violation("C04:memlimit-protocol", "%s: LZMA_MEMLIMIT_ERROR although lzma_memusage() %llu <= limit %llu", x->fn, (unsigned long long)need, (unsigned long long)lim);
		lzma_ret r1 = lzma_memlimit_set(s, need - 1); check_code("lzma_memlimit_set", r1, M_OK | M_MEMLIMIT);
		if (r1 == LZMA_MEMLIMIT_ERROR) { if (lzma_memlimit_get(s) != lim) violation("C04:memlimit-protocol", "%s: a refused lzma_memlimit_set changed the limit", x->fn);
			lzma_ret r2 = lzma_memlimit_set(s, need); if (r2 != LZMA_OK) violation("C04:memlimit-protocol", "%s: lzma_memlimit_set(lzma_memusage()) returned %s", x->fn, drv::retname(r2)); }
		count("memlimit_raised");
		if (++x->raises > 3000) { x->bound = true; return false; }
	}
	return true;
}

struct Ran { drv::Result R; bool nontrivial = false; };

// Drive an initialised decoder over `in`; ends the stream.  mask = documented lzma_code() values for this coder.
static drv::Result drive(const char *fn, lzma_stream *s, const Heap &in, const Params &P, uint32_t mask, bool limited, size_t idle_limit = 3, bool declared_size = false) {
	RunCtx x; x.fn = fn; x.mask = mask | M_OK | M_END | M_BUF | M_MEM; if (limited) x.mask |= M_MEMLIMIT; x.raise = P.raise && limited;
	drv::Opts o; o.final_action = P.fin; o.out_cap = P.out_cap; o.stop_on_memlimit = !x.raise; o.hook = run_hook; o.hook_arg = &x; o.idle_limit = idle_limit; o.small_call_budget = 6000; o.input_beyond_declared_size = declared_size;
	drv::Result R = run_exact(s, in.p, in.n, P.sch, o);
	if (R.call_bound || x.bound) violation("C04:call-bound", "%s: no end after %zu calls (%u limit raises) for %zu input bytes and %zu output bytes; last return %s", fn, R.calls, x.raises, in.n, R.out.size(), drv::retname(R.ret));
	if (R.capped && R.ret == LZMA_OK) { count("output_cap_reached"); R.ret = starve(fn, s, in.p, in.n, P.fin, x.mask); R.total_in = s->total_in; }
	if (R.ret == LZMA_MEM_ERROR && g_al && !g_al->refused_cap && !g_al->failed) count("mem_error_without_allocator_refusal");
	return R;
}

static uint32_t tell_mask(uint32_t fl) { return ((fl & LZMA_TELL_NO_CHECK) ? M_NOCHK : 0) | ((fl & LZMA_TELL_UNSUPPORTED_CHECK) ? M_UNSUP : 0) | ((fl & LZMA_TELL_ANY_CHECK) ? M_GETCHK : 0); }

static bool e_container(const Params &P, const Heap &in) {
	lzma_stream s = LZMA_STREAM_INIT; s.allocator = AL(); lzma_ret ir; const char *fn; uint32_t mask = M_FORMAT | M_OPTIONS | M_DATA; size_t hdr = 12, idle = 3;
	uint32_t fl = P.dflags;
	switch (P.entry) {
	case E_STREAM: ir = lzma_stream_decoder(&s, P.memlimit, fl); fn = "lzma_stream_decoder"; mask |= tell_mask(fl); break;
	case E_AUTO: ir = lzma_auto_decoder(&s, P.memlimit, fl); fn = "lzma_auto_decoder"; mask |= tell_mask(fl); hdr = 6; break;
	case E_LZIP: ir = lzma_lzip_decoder(&s, P.memlimit, fl); fn = "lzma_lzip_decoder"; mask |= (fl & LZMA_TELL_ANY_CHECK) ? M_GETCHK : 0; hdr = 6; break;
	case E_ALONE: ir = lzma_alone_decoder(&s, P.memlimit); fn = "lzma_alone_decoder"; hdr = 13; fl = 0; break;
	default: { lzma_mt mt; memset(&mt, 0, sizeof mt); mt.flags = fl; mt.threads = 1 + P.p1 % 3; mt.timeout = 0;
		mt.memlimit_stop = P.memlimit; mt.memlimit_threading = (P.p1 & 0x40) ? 1 : ((P.p1 & 0x80) ? (8u << 20) : UINT64_MAX);
		ir = lzma_stream_decoder_mt(&s, &mt); fn = "lzma_stream_decoder_mt"; mask |= tell_mask(fl); idle = 64; break; }
	}
	const bool bad = P.bad_flag && P.entry != E_ALONE;
	check_code(fn, ir, bad ? (M_OPTIONS | M_MEM) : (M_OK | M_MEM | (P.entry == E_STREAM_MT ? M_MEMLIMIT : 0)));
	if (bad && ir != LZMA_MEM_ERROR) { count("init_unsupported_flag_rejected"); lzma_end(&s); return false; }
	if (ir != LZMA_OK) { lzma_end(&s); return false; }
	if (lzma_memlimit_get(&s) != std::max<uint64_t>(P.memlimit, 1)) violation("C04:memlimit-protocol", "%s: lzma_memlimit_get() %llu after initialising with %llu", fn, (unsigned long long)lzma_memlimit_get(&s), (unsigned long long)P.memlimit);
	std::string f2 = std::string(fn) + ":lzma_code";
	drv::Result R = drive(f2.c_str(), &s, in, P, mask, P.memlimit != UINT64_MAX, idle);
	if (P.entry == E_ALONE && !R.info.empty()) violation("C04:return-code:lzma_alone_decoder:lzma_code", "informational code %s from the .lzma decoder", drv::retname(R.info[0]));
	lzma_end(&s);
	count(std::string("ret_") + entry_names[P.entry] + "_" + drv::retname(R.ret));
	return R.total_in > hdr || (R.ret != LZMA_FORMAT_ERROR && R.ret != LZMA_BUF_ERROR && R.total_in >= 1);
}

static bool e_microlzma(const Params &P, const Heap &in) {
	uint64_t comp = in.n; uint8_t a = P.p1;
	if (a >= 128 && a < 160) comp = in.n + 1 + (a & 7); else if (a >= 160 && a < 192) comp = in.n > (size_t)(a & 7) + 1 ? in.n - 1 - (a & 7) : 0; else if (a >= 192 && a < 224) comp = a & 31; else if (a >= 224) comp = (a & 1) ? (1ull << 40) : UINT64_MAX;
	uint8_t b = P.p2 & 0x1F; uint64_t unc = b < 8 ? b : (b < 16 ? (uint64_t)(b - 8) * 37 : (b < 24 ? (uint64_t)(b - 16) * 1024 + (P.p3 >> 4) : (b < 30 ? (1u << 20) : (b == 30 ? LZMA_VLI_MAX : UINT64_MAX))));
	static const uint32_t dicts[8] = {4096, 65536, 1u << 20, 0, 1, 1u << 24, 5000, 0xFFFFFFFFu};
	const bool exact = P.p3 & 1; const uint32_t dict = dicts[(P.p3 >> 1) & 7];
	lzma_stream s = LZMA_STREAM_INIT; s.allocator = AL();
	lzma_ret ir = lzma_microlzma_decoder(&s, comp, unc, exact, dict);
	check_code("lzma_microlzma_decoder", ir, M_OK | M_MEM | M_OPTIONS);
	if (ir != LZMA_OK) { lzma_end(&s); count("microlzma_init_rejected"); return false; }
	drv::Result R = drive("lzma_microlzma_decoder:lzma_code", &s, in, P, M_OPTIONS | M_DATA, false, 3, true);
	lzma_end(&s);
	if (!R.capped && unc <= LZMA_VLI_MAX && R.out.size() > unc) violation("C04:microlzma-output-exceeds-size", "produced %zu bytes, uncomp_size %llu", R.out.size(), (unsigned long long)unc);
	count(std::string("ret_microlzma_") + drv::retname(R.ret));
	return R.total_in > 5;
}

// ---------------------------------------------------------------- raw chains
struct Chain {
	lzma_filter f[LZMA_FILTERS_MAX + 1]; lzma_options_lzma lz; lzma_options_delta dl[LZMA_FILTERS_MAX]; lzma_options_bcj bcj[LZMA_FILTERS_MAX]; std::vector<uint8_t> pdict; unsigned n = 0;
	std::string desc;
};
static const lzma_vli nonlast_ids[] = {LZMA_FILTER_DELTA, LZMA_FILTER_X86, LZMA_FILTER_POWERPC, LZMA_FILTER_IA64, LZMA_FILTER_ARM, LZMA_FILTER_ARMTHUMB, LZMA_FILTER_ARM64, LZMA_FILTER_SPARC, LZMA_FILTER_RISCV};
static const uint32_t bcj_align[] = {1, 1, 4, 16, 4, 2, 4, 4, 2};
static const uint32_t raw_dicts[16] = {4096, 4096, 8192, 65536, 1u << 20, 1u << 24, 4097, 1, 0, 12345, 1u << 16, 1u << 22, 3u << 19, 4096, 1u << 18, 1u << 26};

static void draw_chain(const Params &P, Chain &ch) {
	Rng g(P.seed ^ 0xC04);
	memset(&ch.lz, 0, sizeof ch.lz); memset(ch.dl, 0, sizeof ch.dl); memset(ch.bcj, 0, sizeof ch.bcj);
	const unsigned lastk = P.p1 & 3, nn = (P.p1 >> 2) & 3; const bool odd = (P.p1 >> 4) == 15;
	for (unsigned i = 0; i < nn; ++i) {
		unsigned k = g.below(9); ch.f[ch.n].id = nonlast_ids[k];
		if (k == 0) { ch.dl[i].type = LZMA_DELTA_TYPE_BYTE; ch.dl[i].dist = 1 + g.below(256); ch.f[ch.n].options = &ch.dl[i]; }
		else if (g.below(3) == 0) ch.f[ch.n].options = NULL;
		else { ch.bcj[i].start_offset = g.below(2) ? 0 : bcj_align[k] * g.below(1u << 20); ch.f[ch.n].options = &ch.bcj[i]; }
		++ch.n;
	}
	unsigned lc, lp, pb; if (!ref::props_decode(P.p2, lc, lp, pb)) { lc = 3; lp = 0; pb = 2; }
	ch.lz.lc = lc; ch.lz.lp = lp; ch.lz.pb = pb; ch.lz.dict_size = raw_dicts[P.p3 & 15];
	if (P.p3 & 0x80) { ch.pdict.resize(1 + g.below(600)); for (auto &x : ch.pdict) x = (uint8_t)(g.below(4) ? 'a' + g.below(4) : g.byte()); ch.lz.preset_dict = ch.pdict.data(); ch.lz.preset_dict_size = (uint32_t)ch.pdict.size(); }
	lzma_vli last = lastk == 1 ? LZMA_FILTER_LZMA1 : (lastk == 2 ? LZMA_FILTER_LZMA1EXT : LZMA_FILTER_LZMA2);
	if (last == LZMA_FILTER_LZMA1EXT) {
		ch.lz.ext_flags = (P.p3 & 0x10) ? LZMA_LZMA1EXT_ALLOW_EOPM : 0;
		unsigned sk = (P.p3 >> 5) & 3; uint64_t sz = sk == 0 ? UINT64_MAX : (sk == 1 ? g.below(300) : (sk == 2 ? 0 : g.below(70000)));
		ch.lz.ext_size_low = (uint32_t)sz; ch.lz.ext_size_high = (uint32_t)(sz >> 32);
	}
	if (odd) { // structurally invalid chains: documented LZMA_OPTIONS_ERROR from the initialiser
		if (g.below(2) && ch.n) { ch.f[0].id = LZMA_FILTER_LZMA2; ch.f[0].options = &ch.lz; }      // LZMA2 as a non-last filter
		else { ch.f[ch.n].id = LZMA_FILTER_DELTA; ch.dl[3].type = LZMA_DELTA_TYPE_BYTE; ch.dl[3].dist = 1; ch.f[ch.n].options = &ch.dl[3]; ++ch.n; ch.f[ch.n].id = LZMA_VLI_UNKNOWN; ch.f[ch.n].options = NULL; ch.desc = "delta-last"; return; }
	}
	ch.f[ch.n].id = last; ch.f[ch.n].options = &ch.lz; ++ch.n;
	ch.f[ch.n].id = LZMA_VLI_UNKNOWN; ch.f[ch.n].options = NULL;
	char b[120]; snprintf(b, sizeof b, "n=%u last=%s lc%u lp%u pb%u dict=%u pdict=%zu%s", ch.n, lastk == 1 ? "lzma1" : lastk == 2 ? "lzma1ext" : "lzma2", lc, lp, pb, ch.lz.dict_size, ch.pdict.size(), odd ? " odd" : ""); ch.desc = b;
}

static bool e_raw(const Params &P, const Heap &in) {
	Chain ch; draw_chain(P, ch); add_desc("chain", ch.desc);
	lzma_stream s = LZMA_STREAM_INIT; s.allocator = AL();
	lzma_ret ir = lzma_raw_decoder(&s, ch.f);
	check_code("lzma_raw_decoder", ir, M_OK | M_MEM | M_OPTIONS);
	if (ir != LZMA_OK) { lzma_end(&s); count("raw_init_rejected"); return false; }
	drv::Result R = drive("lzma_raw_decoder:lzma_code", &s, in, P, M_DATA | M_OPTIONS, false);
	lzma_end(&s);
	count(std::string("ret_raw_") + drv::retname(R.ret));
	return R.total_in > 5;
}

// ---------------------------------------------------------------- Block
static void expect_filters_cleared(const lzma_filter *fl, const char *fn) {
	for (unsigned i = 0; i <= LZMA_FILTERS_MAX; ++i) if (fl[i].id != LZMA_VLI_UNKNOWN || fl[i].options != NULL) violation("C04:postcondition:block-header-filters", "%s failed but filters[%u] = {id %llx, options %p} (block.h: all LZMA_VLI_UNKNOWN / NULL)", fn, i, (unsigned long long)fl[i].id, fl[i].options);
}

// lzma_block_header_decode on an exact copy of the header; returns header size on success, 0 otherwise
static size_t decode_block_header(const Params &P, const Heap &in, lzma_block &b, lzma_filter *fl, bool &passed_crc) {
	passed_crc = false;
	if (in.n < 1 || in.p[0] == 0) { count("block_no_header_byte"); return 0; }
	const size_t hs = lzma_block_header_size_decode(in.p[0]);
	if (hs > in.n) { count("block_header_longer_than_input"); return 0; }
	Heap h(hs); memcpy(h.p, in.p, hs);
	memset(&b, 0, sizeof b); for (unsigned i = 0; i <= LZMA_FILTERS_MAX; ++i) { fl[i].id = 0x1234; fl[i].options = (void *)&b; }
	static const uint32_t versions[4] = {1, 0, 2, 0xFFFFFFFFu};
	b.version = versions[(P.p1 >> 4) & 3]; b.header_size = (uint32_t)hs; b.check = (lzma_check)(P.p1 & 15); b.filters = fl;
	lzma_ret r = lzma_block_header_decode(&b, AL(), h.p);
	check_code("lzma_block_header_decode", r, M_OK | M_OPTIONS | M_DATA | M_MEM);
	if (memcmp(h.p, in.p, hs) != 0) violation("C04:input-modified", "lzma_block_header_decode wrote into its input");
	count(std::string("ret_block_header_") + drv::retname(r));
	passed_crc = ref::crc32(in.p, hs - 4) == ref::rd32(in.p + hs - 4);
	if (r != LZMA_OK) { expect_filters_cleared(fl, "lzma_block_header_decode"); return 0; }
	if (b.version > 1) violation("C04:postcondition:block-version", "block.version = %u after lzma_block_header_decode (must be downgraded to a supported value)", b.version);
	if (b.ignore_check) violation("C04:postcondition:block-ignore-check", "ignore_check not cleared by lzma_block_header_decode");
	if (!lzma_vli_is_valid(b.compressed_size) || !lzma_vli_is_valid(b.uncompressed_size) || b.compressed_size == 0) violation("C04:postcondition:block-sizes", "decoded sizes invalid: %llx %llx", (unsigned long long)b.compressed_size, (unsigned long long)b.uncompressed_size);
	unsigned nf = 0; while (nf <= LZMA_FILTERS_MAX && fl[nf].id != LZMA_VLI_UNKNOWN) ++nf;
	if (nf == 0 || nf > LZMA_FILTERS_MAX) violation("C04:postcondition:block-header-filters", "successful decode left %u filters", nf);
	for (unsigned i = nf; i <= LZMA_FILTERS_MAX; ++i) if (fl[i].id != LZMA_VLI_UNKNOWN || fl[i].options) violation("C04:postcondition:block-header-filters", "unused filters[%u] not cleared", i);
	return hs;
}

static bool e_block(const Params &P, const Heap &in) {
	lzma_block b; lzma_filter fl[LZMA_FILTERS_MAX + 1]; bool crc;
	size_t hs = decode_block_header(P, in, b, fl, crc);
	if (!hs) return crc;
	if (P.entry == E_BLOCK_HEADER) {
		// use the decoded structure: sizes and text form
		lzma_vli us = lzma_block_unpadded_size(&b), ts = lzma_block_total_size(&b); (void)us; (void)ts;
		char *str = NULL; lzma_ret sr = lzma_str_from_filters(&str, fl, LZMA_STR_DECODER, AL()); check_code("lzma_str_from_filters", sr, M_OK | M_OPTIONS | M_MEM);
		if ((sr == LZMA_OK) != (str != NULL)) violation("C04:postcondition:str-from-filters", "ret %s but *str %s", drv::retname(sr), str ? "set" : "NULL");
		if (str) AL()->free(AL()->opaque, str);
		lzma_filters_free(fl, AL());
		return true;
	}
	b.ignore_check = (P.fb & 0x10) != 0;
	Heap body(in.n - hs); if (body.n) memcpy(body.p, in.p + hs, body.n);
	if (P.entry == E_BLOCK_BUF) {
		Heap out(P.out_cap); size_t ip = 0, op = 0;
		lzma_ret r = lzma_block_buffer_decode(&b, AL(), body.p, &ip, body.n, out.p, &op, out.n);
		check_code("lzma_block_buffer_decode", r, M_OK | M_OPTIONS | M_DATA | M_MEM | M_BUF);
		if (r != LZMA_OK && (ip != 0 || op != 0)) violation("C04:postcondition:positions", "lzma_block_buffer_decode failed (%s) but moved in_pos/out_pos to %zu/%zu", drv::retname(r), ip, op);
		if (ip > body.n || op > out.n) violation("C04:postcondition:positions", "lzma_block_buffer_decode: positions beyond the buffers");
		if (body.n && memcmp(body.p, in.p + hs, body.n)) violation("C04:input-modified", "lzma_block_buffer_decode wrote into its input");
		count(std::string("ret_block_buf_") + drv::retname(r));
		lzma_filters_free(fl, AL());
		return true;
	}
	lzma_stream s = LZMA_STREAM_INIT; s.allocator = AL();
	lzma_ret ir = lzma_block_decoder(&s, &b);
	check_code("lzma_block_decoder", ir, M_OK | M_MEM | M_OPTIONS);
	if (ir == LZMA_OK) {
		drv::Result R = drive("lzma_block_decoder:lzma_code", &s, body, P, M_DATA | M_OPTIONS, false);
		count(std::string("ret_block_") + drv::retname(R.ret));
	} else count("block_init_rejected");
	lzma_end(&s);
	lzma_filters_free(fl, AL());
	for (unsigned i = 0; i <= LZMA_FILTERS_MAX; ++i) if (fl[i].id != LZMA_VLI_UNKNOWN || fl[i].options) violation("C04:postcondition:filters-free", "lzma_filters_free left filters[%u] set", i);
	return true;
}

// ---------------------------------------------------------------- Index
static void use_index(const lzma_index *idx, uint64_t limit_in_force, const char *fn) {
	const uint64_t used = lzma_index_memused(idx);
	if (used > limit_in_force) violation("C04:index-exceeds-memlimit", "%s succeeded with memlimit %llu but the lzma_index needs %llu", fn, (unsigned long long)limit_in_force, (unsigned long long)used);
	lzma_index_iter it; lzma_index_iter_init(&it, idx); uint64_t k = 0, sum = 0;
	while (!lzma_index_iter_next(&it, LZMA_INDEX_ITER_BLOCK) && k < 20000) { sum += it.block.uncompressed_size; ++k; }
	if (k < 20000 && (k != lzma_index_block_count(idx) || sum != lzma_index_uncompressed_size(idx))) violation("C04:decoded-index-inconsistent", "%s: iteration saw %llu blocks / %llu bytes, getters say %llu / %llu", fn, (unsigned long long)k, (unsigned long long)sum,
		(unsigned long long)lzma_index_block_count(idx), (unsigned long long)lzma_index_uncompressed_size(idx));
}

static bool e_index(const Params &P, const Heap &in) {
	if (P.entry == E_INDEX_BUF) {
		lzma_index *idx = (lzma_index *)&P; uint64_t lim = P.memlimit; size_t ip = 0;
		lzma_ret r = lzma_index_buffer_decode(&idx, &lim, AL(), in.p, &ip, in.n);
		check_code("lzma_index_buffer_decode", r, M_OK | M_MEM | M_DATA | (P.memlimit != UINT64_MAX ? M_MEMLIMIT : 0));
		if ((r == LZMA_OK) != (idx != NULL)) violation("C04:postcondition:index-pointer", "lzma_index_buffer_decode returned %s with *i %s", drv::retname(r), idx ? "set" : "NULL");
		if (r != LZMA_OK && ip != 0) violation("C04:postcondition:positions", "lzma_index_buffer_decode failed but in_pos = %zu", ip);
		if (r != LZMA_MEMLIMIT_ERROR && lim != P.memlimit) violation("C04:postcondition:memlimit-pointer", "*memlimit changed (%llu -> %llu) although the result was %s", (unsigned long long)P.memlimit, (unsigned long long)lim, drv::retname(r));
		if (r == LZMA_MEMLIMIT_ERROR && lim <= std::max<uint64_t>(P.memlimit, 1)) violation("C04:postcondition:memlimit-pointer", "LZMA_MEMLIMIT_ERROR stored %llu, limit was %llu", (unsigned long long)lim, (unsigned long long)P.memlimit);
		if (ip > in.n) violation("C04:postcondition:positions", "in_pos beyond the buffer");
		if (idx) { use_index(idx, std::max<uint64_t>(P.memlimit, 1), "lzma_index_buffer_decode"); lzma_index_end(idx, AL()); }
		count(std::string("ret_index_buf_") + drv::retname(r));
		return ip > 1 || (in.n > 1 && in.p[0] == 0 && r != LZMA_OK);
	}
	lzma_index *idx = (lzma_index *)&P; lzma_stream s = LZMA_STREAM_INIT; s.allocator = AL();
	lzma_ret ir = lzma_index_decoder(&s, &idx, P.memlimit);
	check_code("lzma_index_decoder", ir, M_OK | M_MEM);
	if (ir != LZMA_OK) { lzma_end(&s); return false; }
	if (idx != NULL) violation("C04:postcondition:index-pointer", "lzma_index_decoder did not set *i to NULL");
	drv::Result R = drive("lzma_index_decoder:lzma_code", &s, in, P, M_DATA, P.memlimit != UINT64_MAX);
	const uint64_t lim = lzma_memlimit_get(&s);
	if ((R.ret == LZMA_STREAM_END) != (idx != NULL)) violation("C04:postcondition:index-pointer", "index decoder ended with %s and *i %s", drv::retname(R.ret), idx ? "set" : "NULL");
	if (!R.out.empty()) violation("C04:output-beyond-window", "index decoder produced output");
	lzma_end(&s);
	if (idx) { use_index(idx, lim, "lzma_index_decoder"); lzma_index_end(idx, AL()); }
	count(std::string("ret_index_") + drv::retname(R.ret));
	return R.total_in > 1;
}

// ---------------------------------------------------------------- file info (virtual file = the input bytes)
static bool e_file_info(const Params &P, const Heap &in) {
	const uint64_t fsize = in.n; Rng g(P.seed ^ 0xF1);
	lzma_index *idx = NULL; lzma_stream s = LZMA_STREAM_INIT; s.allocator = AL();
	lzma_ret ir = lzma_file_info_decoder(&s, &idx, P.memlimit, fsize);
	check_code("lzma_file_info_decoder", ir, M_OK | M_MEM);
	if (ir != LZMA_OK) { lzma_end(&s); return false; }
	static const size_t chunks[8] = {SIZE_MAX, 1, 2, 13, 64, 1000, 4096, 5};
	const size_t chunk = chunks[P.p1 & 7]; const bool short_reads = P.p1 & 0x80; const unsigned finish_mode = (P.p3 >> 2) % 3;
	const uint32_t mask = M_OK | M_END | M_SEEK | M_FORMAT | M_OPTIONS | M_DATA | M_BUF | M_MEM | (P.memlimit != UINT64_MAX ? M_MEMLIMIT : 0);
	uint64_t cur = 0, calls = 0, seeks = 0, raises = 0, total = 0; bool finishing = false; unsigned idle = 0; size_t pending = 0; lzma_ret last = LZMA_OK;
	const uint64_t max_calls = 8 * fsize + 4096;
	for (;;) {
		lzma_action act = LZMA_RUN; size_t give;
		if (finishing) { act = LZMA_FINISH; give = pending; }
		else {
			size_t want = short_reads ? 1 + g.below((uint32_t)std::min<size_t>(chunk, 1u << 20)) : chunk;
			give = (size_t)std::min<uint64_t>(want, fsize - cur);
			if (cur + give == fsize && (finish_mode == 2 || (finish_mode == 1 && g.below(2)))) { act = LZMA_FINISH; finishing = true; }
		}
		Heap ib(give); if (give) memcpy(ib.p, in.p + cur, give);
		s.next_in = ib.p; s.avail_in = give; s.next_out = NULL; s.avail_out = 0;
		const uint64_t ti0 = s.total_in;
		lzma_ret r = lzma_code(&s, act); ++calls; last = r;
		check_code("lzma_file_info_decoder:lzma_code", r, mask);
		const size_t used = give - s.avail_in;
		if (s.avail_in > give || s.next_in != ib.p + used || s.total_in != ti0 + used) violation("C11:accounting", "file info decoder: avail_in %zu->%zu next_in moved %td total_in %llu->%llu", give, s.avail_in, s.next_in - ib.p, (unsigned long long)ti0, (unsigned long long)s.total_in);
		if (s.next_out != NULL || s.avail_out != 0 || s.total_out != 0) violation("C04:output-beyond-window", "file info decoder touched the output side of lzma_stream");
		if (give && memcmp(ib.p, in.p + cur, give)) violation("C04:input-modified", "file info decoder wrote into its input");
		cur += used; pending = give - used; total += used;
		s.next_in = NULL;
		if (r == LZMA_SEEK_NEEDED) {
			++seeks;
			if (s.seek_pos > fsize) violation("C04:seek-beyond-file", "LZMA_SEEK_NEEDED with seek_pos %llu > file size %llu", (unsigned long long)s.seek_pos, (unsigned long long)fsize);
			cur = s.seek_pos; finishing = false; idle = 0; pending = 0;
		} else if (r == LZMA_MEMLIMIT_ERROR) {
			if (!P.raise) break;
			uint64_t need = lzma_memusage(&s), lim = lzma_memlimit_get(&s);
			if (need <= lim) violation("C04:memlimit-protocol", "file info: LZMA_MEMLIMIT_ERROR with lzma_memusage() %llu <= limit %llu", (unsigned long long)need, (unsigned long long)lim);
			if (lzma_memlimit_set(&s, need) != LZMA_OK) violation("C04:memlimit-protocol", "file info: lzma_memlimit_set(%llu) failed", (unsigned long long)need);
			count("memlimit_raised");
			if (++raises > 500) violation("C04:call-bound", "file info decoder: %llu memory limit raises", (unsigned long long)raises);
		} else if (r == LZMA_OK) {
			if (used == 0) { if (++idle > 4) violation("C04:call-bound", "file info decoder: %u consecutive calls without progress returned LZMA_OK (pos %llu of %llu)", idle, (unsigned long long)cur, (unsigned long long)fsize); } else idle = 0;
		} else if (r == LZMA_BUF_ERROR && !(cur == fsize || finishing)) {
			// documented as non-fatal; there is more input to give (unread bytes are read again from `cur`)
		} else break;
		if (calls > max_calls) violation("C04:call-bound", "file info decoder: %llu calls, %llu seeks for a %llu byte file", (unsigned long long)calls, (unsigned long long)seeks, (unsigned long long)fsize);
	}
	const uint64_t lim = lzma_memlimit_get(&s);
	lzma_end(&s);
	if (last == LZMA_STREAM_END && !idx) violation("C04:postcondition:index-pointer", "file info decoder: LZMA_STREAM_END but *dest_index is NULL");
	if (idx) { if (last == LZMA_STREAM_END) use_index(idx, lim, "lzma_file_info_decoder"); else count("file_info_index_set_on_error"); lzma_index_end(idx, AL()); }
	count(std::string("ret_file_info_") + drv::retname(last)); if (seeks) count("file_info_seeks", seeks);
	return total > 12 && last != LZMA_FORMAT_ERROR;
}
// ---------------------------------------------------------------- small single-call parsers
static bool e_stream_flags(const Params &P, const Heap &in) {
	if (in.n < LZMA_STREAM_HEADER_SIZE) { count("stream_flags_short_input"); return false; }
	Heap h(LZMA_STREAM_HEADER_SIZE); memcpy(h.p, in.p, h.n);
	lzma_stream_flags f; memset(&f, 0xA5, sizeof f);
	const bool footer = P.entry == E_STREAM_FOOTER; const char *fn = footer ? "lzma_stream_footer_decode" : "lzma_stream_header_decode";
	lzma_ret r = footer ? lzma_stream_footer_decode(&f, h.p) : lzma_stream_header_decode(&f, h.p);
	check_code(fn, r, M_OK | M_FORMAT | M_DATA | M_OPTIONS);
	if (memcmp(h.p, in.p, h.n)) violation("C04:input-modified", "%s wrote into its input", fn);
	count(std::string(footer ? "ret_stream_footer_" : "ret_stream_header_") + drv::retname(r));
	if (r == LZMA_OK) {
		if (f.version != 0 || (unsigned)f.check > LZMA_CHECK_ID_MAX) violation("C04:postcondition:stream-flags", "%s: version %u check %d", fn, f.version, (int)f.check);
		if (!footer && f.backward_size != LZMA_VLI_UNKNOWN) violation("C04:postcondition:stream-flags", "header decode: backward_size not LZMA_VLI_UNKNOWN");
		if (footer && (f.backward_size < LZMA_BACKWARD_SIZE_MIN || f.backward_size > LZMA_BACKWARD_SIZE_MAX || (f.backward_size & 3))) violation("C04:postcondition:stream-flags", "footer decode: backward_size %llu", (unsigned long long)f.backward_size);
		lzma_ret cr = lzma_stream_flags_compare(&f, &f); if (cr != LZMA_OK) violation("C04:postcondition:stream-flags", "decoded flags do not compare equal to themselves: %s", drv::retname(cr));
		uint8_t re[LZMA_STREAM_HEADER_SIZE]; lzma_ret er = footer ? lzma_stream_footer_encode(&f, re) : lzma_stream_header_encode(&f, re);
		if (er != LZMA_OK || memcmp(re, h.p, sizeof re)) violation("C04:postcondition:stream-flags", "re-encoding the decoded flags: %s / bytes %s", drv::retname(er), er == LZMA_OK ? "differ" : "-");
	}
	return r != LZMA_FORMAT_ERROR;
}

static void free_options(lzma_filter &f) { lzma_filter a[2] = {f, {LZMA_VLI_UNKNOWN, NULL}}; lzma_filters_free(a, AL()); f.options = NULL; }

static bool e_filter_flags(const Params &P, const Heap &in) {
	lzma_filter f; f.id = 0x77; f.options = (void *)&f; size_t ip = 0;
	lzma_ret r = lzma_filter_flags_decode(&f, AL(), in.p, &ip, in.n);
	check_code("lzma_filter_flags_decode", r, M_OK | M_OPTIONS | M_MEM | M_DATA);
	count(std::string("ret_filter_flags_") + drv::retname(r));
	if (r != LZMA_OK) { if (f.options != NULL) violation("C04:postcondition:filter-options", "lzma_filter_flags_decode failed (%s) but filter.options is not NULL", drv::retname(r)); if (ip != 0) count("note_filter_flags_decode_moved_in_pos_on_error"); /* filter.h says it is not updated; outside C04, reported as a note */ if (ip > in.n) violation("C04:postcondition:positions", "lzma_filter_flags_decode: in_pos %zu beyond the buffer (%zu)", ip, in.n); return r == LZMA_OPTIONS_ERROR; }
	if (ip > in.n || ip < 2) violation("C04:postcondition:positions", "lzma_filter_flags_decode: in_pos %zu of %zu", ip, in.n);
	uint32_t sz = 0; lzma_ret sr = lzma_filter_flags_size(&sz, &f); check_code("lzma_filter_flags_size", sr, M_OK | M_OPTIONS);
	if (sr == LZMA_OK && sz > ip) violation("C04:postcondition:filter-flags-size", "decoded %zu bytes but the canonical encoding needs %u", ip, sz);   // (a BCJ start offset of 0 may be stored in 4 bytes: sz < ip is fine)
	free_options(f);
	return true;
}

static const lzma_vli prop_ids[] = {LZMA_FILTER_LZMA2, LZMA_FILTER_LZMA1, LZMA_FILTER_DELTA, LZMA_FILTER_X86, LZMA_FILTER_POWERPC, LZMA_FILTER_IA64, LZMA_FILTER_ARM, LZMA_FILTER_ARMTHUMB, LZMA_FILTER_ARM64,
	LZMA_FILTER_SPARC, LZMA_FILTER_RISCV, LZMA_FILTER_LZMA1EXT, 0x02, 0x4000000000000000ull, LZMA_VLI_MAX, LZMA_VLI_UNKNOWN};
static bool e_properties(const Params &P, const Heap &in) {
	lzma_filter f; f.id = prop_ids[P.p1 & 15]; f.options = (void *)&f;
	lzma_ret r = lzma_properties_decode(&f, AL(), in.p, in.n);
	check_code("lzma_properties_decode", r, M_OK | M_OPTIONS | M_MEM);
	count(std::string("ret_properties_") + drv::retname(r));
	if (r != LZMA_OK) { if (f.options != NULL) violation("C04:postcondition:filter-options", "lzma_properties_decode failed (%s) but filter.options is not NULL", drv::retname(r)); return false; }
	if (f.options) {
		// use them: the encoded form of what was decoded has the same size
		uint32_t sz = 0; lzma_ret sr = lzma_properties_size(&sz, &f); check_code("lzma_properties_size", sr, M_OK | M_OPTIONS);
		if (sr == LZMA_OK && sz != in.n) violation("C04:postcondition:properties-size", "decoded %zu property bytes, lzma_properties_size says %u", in.n, sz);
		free_options(f);
	}
	return true;
}

static bool e_vli(const Params &P, const Heap &in) {
	// single call
	lzma_vli v1 = 0xAAAAAAAAAAAAAAAAull; size_t ip1 = 0;
	lzma_ret r1 = lzma_vli_decode(&v1, NULL, in.p, &ip1, in.n);
	check_code("lzma_vli_decode(single-call)", r1, M_OK | M_DATA);
	size_t rp = 0; uint64_t rv = 0; int rr = ref::vli_decode(in.p, in.n, rp, rv);
	if (ip1 > in.n || ip1 > LZMA_VLI_BYTES_MAX) violation("C04:vli", "single-call: in_pos %zu (input %zu)", ip1, in.n);
	if (r1 == LZMA_OK && (v1 > LZMA_VLI_MAX || rr != 0 || rv != v1 || rp != ip1)) violation("C04:vli", "single-call accepted: value %llx after %zu bytes; format rule: %s value %llx after %zu", (unsigned long long)v1, ip1, rr == 0 ? "valid" : "invalid", (unsigned long long)rv, rp);
	if (r1 != LZMA_OK && rr == 0) violation("C04:vli", "single-call rejected a valid integer (%s)", drv::retname(r1));
	// multi call with the slicing schedule's input pieces
	lzma_vli v2 = 0x5555555555555555ull; size_t vpos = 0, ip2 = 0, given = 0, pi = 0, calls = 0; lzma_ret r2 = LZMA_OK;
	for (;;) {
		size_t k = pi < P.sch.pieces.size() ? P.sch.pieces[pi++].in : (P.sch.tail_in ? P.sch.tail_in : in.n);
		given = std::min(in.n, given + k);
		const bool had_input = ip2 < given; const size_t vpos0 = vpos;
		r2 = lzma_vli_decode(&v2, &vpos, in.p, &ip2, given); ++calls;
		check_code("lzma_vli_decode(multi-call)", r2, M_OK | M_END | M_DATA | M_BUF);
		if (ip2 > given || vpos > LZMA_VLI_BYTES_MAX || vpos < vpos0) violation("C04:vli", "multi-call: in_pos %zu of %zu, vli_pos %zu", ip2, given, vpos);
		if (r2 == LZMA_BUF_ERROR && had_input) violation("C04:vli", "multi-call: LZMA_BUF_ERROR although input was provided");
		if (r2 == LZMA_OK && ip2 != given) violation("C04:vli", "multi-call: LZMA_OK with unread input");
		if (r2 == LZMA_STREAM_END || r2 == LZMA_DATA_ERROR) break;
		if (given == in.n && !had_input) break;          // nothing more to give
		if (calls > in.n + P.sch.pieces.size() + 16) violation("C04:call-bound", "lzma_vli_decode multi-call: %zu calls", calls);
	}
	if ((r1 == LZMA_OK) != (r2 == LZMA_STREAM_END) || (r1 == LZMA_OK && (v1 != v2 || ip1 != ip2))) violation("C04:vli", "single-call %s (%llx, %zu bytes) vs multi-call %s (%llx, %zu bytes)", drv::retname(r1), (unsigned long long)v1, ip1, drv::retname(r2), (unsigned long long)v2, ip2);
	count(std::string("ret_vli_") + drv::retname(r1));
	return ip1 >= 2 || r1 == LZMA_OK;
}

// ---------------------------------------------------------------- text
static bool e_str(const Params &P, const Heap &in) {
	Heap str(in.n + 1); if (in.n) memcpy(str.p, in.p, in.n); str.p[in.n] = 0;
	const size_t len = strlen((const char *)str.p);
	if (P.entry == E_STR_TO_FILTERS) {
		lzma_filter fl[LZMA_FILTERS_MAX + 1], before[LZMA_FILTERS_MAX + 1];
		for (unsigned i = 0; i <= LZMA_FILTERS_MAX; ++i) { fl[i].id = 0x1000 + i; fl[i].options = (void *)&fl[i]; } memcpy(before, fl, sizeof fl);
		int errpos = -12345; const uint32_t flags = P.p1 & 3;
		const char *msg = (P.p1 & 4) ? lzma_str_to_filters((const char *)str.p, NULL, fl, flags, AL()) : lzma_str_to_filters((const char *)str.p, &errpos, fl, flags, AL());
		if (!(P.p1 & 4) && (errpos < 0 || (size_t)errpos > len)) violation("C04:str-error-pos", "error_pos %d for a string of length %zu (%s)", errpos, len, msg ? msg : "success");
		count(msg ? "ret_str_to_filters_error" : "ret_str_to_filters_ok");
		if (msg) { if (memcmp(before, fl, sizeof fl)) violation("C04:postcondition:str-filters-untouched", "lzma_str_to_filters failed (%s) but modified the filters array", msg); if (!*msg) violation("C04:str-error-pos", "empty error message"); return errpos > 0; }
		unsigned nf = 0; while (nf <= LZMA_FILTERS_MAX && fl[nf].id != LZMA_VLI_UNKNOWN) ++nf;
		if (nf == 0 || nf > LZMA_FILTERS_MAX) violation("C04:postcondition:str-filters", "lzma_str_to_filters succeeded with %u filters", nf);
		char *out = NULL; lzma_ret sr = lzma_str_from_filters(&out, fl, (P.p2 & 1 ? LZMA_STR_ENCODER : LZMA_STR_DECODER) | (P.p2 & 2 ? LZMA_STR_GETOPT_LONG : 0) | (P.p2 & 4 ? LZMA_STR_NO_SPACES : 0), AL());
		check_code("lzma_str_from_filters", sr, M_OK | M_MEM | M_OPTIONS);
		if ((sr == LZMA_OK) != (out != NULL)) violation("C04:postcondition:str-from-filters", "ret %s but *str %s", drv::retname(sr), out ? "set" : "NULL");
		if (sr == LZMA_OPTIONS_ERROR) violation("C04:postcondition:str-from-filters", "chain accepted by lzma_str_to_filters is refused by lzma_str_from_filters");
		if (out) AL()->free(AL()->opaque, out);
		uint64_t mu = lzma_raw_decoder_memusage(fl); (void)mu;
		lzma_stream s = LZMA_STREAM_INIT; s.allocator = AL(); lzma_ret ir = lzma_raw_decoder(&s, fl); check_code("lzma_raw_decoder", ir, M_OK | M_MEM | M_OPTIONS); lzma_end(&s);
		lzma_filters_free(fl, AL());
		return true;
	}
	// lzma_str_list_filters / lzma_str_from_filters with ids and flags taken from the input
	uint32_t flags = in.n >= 4 ? ref::rd32(in.p) : P.p2; if (!(P.p3 & 1)) flags &= 0xF3;
	lzma_vli id = (P.p1 & 0x80) ? LZMA_VLI_UNKNOWN : prop_ids[P.p1 & 15];
	char *out = (char *)&id; lzma_ret r = lzma_str_list_filters(&out, id, flags, AL());
	check_code("lzma_str_list_filters", r, M_OK | M_OPTIONS | M_MEM);
	if ((r == LZMA_OK) != (out != NULL)) violation("C04:postcondition:str-list", "lzma_str_list_filters: %s but *str %s", drv::retname(r), out ? "set" : "NULL");
	if (out) { if (!*out && id != LZMA_VLI_UNKNOWN) violation("C04:postcondition:str-list", "empty listing"); AL()->free(AL()->opaque, out); }
	count(std::string("ret_str_list_") + drv::retname(r));
	// chain built from the input: ids from the table, options NULL (allowed without ENCODER/DECODER flags) or decoded defaults
	lzma_filter fl[LZMA_FILTERS_MAX + 1]; unsigned nf = in.n > 4 ? in.p[4] % (LZMA_FILTERS_MAX + 1) : 0; lzma_options_lzma lz; lzma_lzma_preset(&lz, 1); lzma_options_delta dl; memset(&dl, 0, sizeof dl); dl.dist = 1 + P.p2; lzma_options_bcj bj; memset(&bj, 0, sizeof bj); bj.start_offset = (uint32_t)P.p3 << 4;
	for (unsigned i = 0; i < nf; ++i) { lzma_vli fid = prop_ids[(in.n > 5 + i ? in.p[5 + i] : i) & 15]; fl[i].id = fid; fl[i].options = (fid == LZMA_FILTER_LZMA1 || fid == LZMA_FILTER_LZMA2 || fid == LZMA_FILTER_LZMA1EXT) ? (void *)&lz : (fid == LZMA_FILTER_DELTA ? (void *)&dl : (fid >= LZMA_FILTER_X86 && fid <= LZMA_FILTER_RISCV ? (void *)&bj : NULL)); }
	fl[nf].id = LZMA_VLI_UNKNOWN; fl[nf].options = NULL;
	char *o2 = (char *)&id; lzma_ret r2 = lzma_str_from_filters(&o2, fl, flags & 0xF0, AL());
	check_code("lzma_str_from_filters", r2, M_OK | M_OPTIONS | M_MEM);
	if ((r2 == LZMA_OK) != (o2 != NULL)) violation("C04:postcondition:str-from-filters", "ret %s but *str %s", drv::retname(r2), o2 ? "set" : "NULL");
	if (nf == 0 && r2 != LZMA_OPTIONS_ERROR) violation("C04:postcondition:str-from-filters", "empty chain: %s (filter.h: LZMA_OPTIONS_ERROR)", drv::retname(r2));
	if (o2) AL()->free(AL()->opaque, o2);
	return r == LZMA_OK;
}

// ---------------------------------------------------------------- single-call buffer decoders
static bool e_stream_buf(const Params &P, const Heap &in) {
	Heap out(P.out_cap); uint64_t lim = P.memlimit; size_t ip = 0, op = 0;
	int predicted = -1;     // -1: no prediction; else the code container.h defines for "decoding could not finish"
	{	// The multi-call decoder given the same buffers in one LZMA_FINISH call tells whether decoding can finish; if it returns LZMA_OK the
		// single-call function must say LZMA_DATA_ERROR (input used up: truncated) or LZMA_BUF_ERROR (input left: output buffer too small).
		// Fixed finding "assert:*in_pos==in_size||*out_pos==out_size": stream_buffer_decoder.c tested the positions after restoring them.
		static const char *const sig = "assert:*in_pos==in_size||*out_pos==out_size";
		if (!(P.dflags & LZMA_TELL_ANY_CHECK) && !P.bad_flag) {
			lzma_stream s = LZMA_STREAM_INIT; s.allocator = AL();
			if (lzma_stream_decoder(&s, P.memlimit, P.dflags) == LZMA_OK) {
				Heap o2(P.out_cap); s.next_in = in.p; s.avail_in = in.n; s.next_out = o2.p; s.avail_out = o2.n;
				lzma_ret pr = lzma_code(&s, LZMA_FINISH);
				if (pr == LZMA_OK) { predicted = s.avail_in == 0 ? (s.avail_out == 0 ? -2 : LZMA_DATA_ERROR) : LZMA_BUF_ERROR; count(s.avail_in == 0 ? "stream_buf_truncated_input" : "stream_buf_small_output"); }
				lzma_end(&s);
				if (pr == LZMA_OK && known_finding(sig)) return in.n > 12;
			} else lzma_end(&s);
		}
	}
	lzma_ret r = lzma_stream_buffer_decode(&lim, P.dflags, AL(), in.p, &ip, in.n, out.p, &op, out.n);
	if (predicted >= 0 && (int)r != predicted && r != LZMA_MEM_ERROR) { const char *sg = "C04:stream-buffer-decode-truncated-vs-small-output"; if (!known_finding(sg))
		violation(sg, "lzma_stream_buffer_decode returned %s; the decoder could not finish because %s => %s", drv::retname(r), predicted == LZMA_DATA_ERROR ? "all input was used (truncated)" : "the output buffer is full with input left", drv::retname(predicted)); }
	if (predicted == -2 && r != LZMA_DATA_ERROR && r != LZMA_BUF_ERROR && r != LZMA_MEM_ERROR) violation("C04:stream-buffer-decode-truncated-vs-small-output", "lzma_stream_buffer_decode returned %s for an unfinished decode", drv::retname(r));
	uint32_t mask;
	if (P.dflags & LZMA_TELL_ANY_CHECK) mask = M_PROG;                           // container.h: not allowed here
	else if (P.bad_flag) mask = M_OPTIONS | M_MEM;
	else mask = M_OK | M_FORMAT | M_OPTIONS | M_DATA | M_MEM | M_BUF | ((P.dflags & LZMA_TELL_NO_CHECK) ? M_NOCHK : 0) | ((P.dflags & LZMA_TELL_UNSUPPORTED_CHECK) ? M_UNSUP : 0) | (P.memlimit != UINT64_MAX ? M_MEMLIMIT : 0);
	check_code("lzma_stream_buffer_decode", r, mask);
	if (r != LZMA_OK && (ip != 0 || op != 0)) violation("C04:postcondition:positions", "lzma_stream_buffer_decode failed (%s) but in_pos/out_pos = %zu/%zu", drv::retname(r), ip, op);
	if (ip > in.n || op > out.n) violation("C04:postcondition:positions", "lzma_stream_buffer_decode: positions beyond the buffers");
	if (r != LZMA_MEMLIMIT_ERROR && lim != P.memlimit) violation("C04:postcondition:memlimit-pointer", "*memlimit changed although the result was %s", drv::retname(r));
	if (r == LZMA_MEMLIMIT_ERROR && lim <= std::max<uint64_t>(P.memlimit, 1)) violation("C04:postcondition:memlimit-pointer", "LZMA_MEMLIMIT_ERROR stored %llu, limit was %llu", (unsigned long long)lim, (unsigned long long)P.memlimit);
	count(std::string("ret_stream_buf_") + drv::retname(r));
	return r != LZMA_FORMAT_ERROR && r != LZMA_PROG_ERROR && !(P.bad_flag) && in.n > 12;
}

static bool e_raw_buf(const Params &P, const Heap &in) {
	Chain ch; draw_chain(P, ch); add_desc("chain", ch.desc);
	Heap out(P.out_cap); size_t ip = 0, op = 0;
	lzma_ret r = lzma_raw_buffer_decode(ch.f, AL(), in.p, &ip, in.n, out.p, &op, out.n);
	check_code("lzma_raw_buffer_decode", r, M_OK | M_BUF | M_OPTIONS | M_MEM | M_DATA);
	if (r != LZMA_OK && (ip != 0 || op != 0)) violation("C04:postcondition:positions", "lzma_raw_buffer_decode failed (%s) but in_pos/out_pos = %zu/%zu", drv::retname(r), ip, op);
	if (ip > in.n || op > out.n) violation("C04:postcondition:positions", "lzma_raw_buffer_decode: positions beyond the buffers");
	count(std::string("ret_raw_buf_") + drv::retname(r));
	return r != LZMA_OPTIONS_ERROR && in.n > 5;
}
// ---------------------------------------------------------------- dispatcher
extern "C" int LLVMFuzzerTestOneInput(const uint8_t *data, size_t size) {
	begin_case("C04");
	Case c(data, size);
	Params P; decode_params(c, P);
	std::vector<uint8_t> rest = c.rest();
	Heap in(rest.size()); if (in.n) memcpy(in.p, rest.data(), in.n);
	set_desc(describe(P, in.n));
	AL(); g_al->reset_counters();
	bool nt = false;
	switch (P.entry) {
	case E_STREAM: case E_STREAM_MT: case E_AUTO: case E_ALONE: case E_LZIP: nt = e_container(P, in); break;
	case E_MICROLZMA: nt = e_microlzma(P, in); break;
	case E_RAW: nt = e_raw(P, in); break;
	case E_BLOCK: case E_BLOCK_HEADER: case E_BLOCK_BUF: nt = e_block(P, in); break;
	case E_INDEX: case E_INDEX_BUF: nt = e_index(P, in); break;
	case E_FILE_INFO: nt = e_file_info(P, in); break;
	case E_STREAM_HEADER: case E_STREAM_FOOTER: nt = e_stream_flags(P, in); break;
	case E_FILTER_FLAGS: nt = e_filter_flags(P, in); break;
	case E_PROPERTIES: nt = e_properties(P, in); break;
	case E_VLI: nt = e_vli(P, in); break;
	case E_STR_TO_FILTERS: case E_STR_LIST: nt = e_str(P, in); break;
	case E_STREAM_BUF: nt = e_stream_buf(P, in); break;
	default: nt = e_raw_buf(P, in); break;
	}
	if (in.n && memcmp(in.p, rest.data(), in.n) != 0) violation("C04:input-modified", "%s: the input buffer was modified", entry_names[P.entry]);
	balance(entry_names[P.entry]);
	if (g_al->refused_cap) count("environment_alloc_cap");
	count(std::string("entry_") + entry_names[P.entry]);
	if (nt) { count(std::string("nontrivial_") + entry_names[P.entry]); nontrivial(hcomb(P.entry, hash_bytes(in.p, in.n))); }
	return 0;
}

// ---------------------------------------------------------------- checksum repair after mutations (see vmut.cc)
extern "C" size_t vfix(uint8_t *d, size_t size, size_t max, unsigned seed) {
	(void)max;
	if (size <= HDR + 4) return size;
	if ((mix64(seed) & 3) == 0) return size;          // a quarter of the mutants keep their broken checksums
	uint8_t *p = d + HDR; const size_t n = size - HDR;
	switch (d[0] % E_N) {
	case E_STREAM: case E_STREAM_MT: case E_FILE_INFO: case E_STREAM_BUF: if (fix_xz(p, n)) d[1] = (uint8_t)((d[1] | 0x10) & 0x7F); break;
	case E_AUTO: if (p[0] == 0xFD) { if (fix_xz(p, n)) d[1] = (uint8_t)((d[1] | 0x10) & 0x7F); } else if (p[0] == 0x4C) fix_lzip(p, n); break;
	case E_LZIP: fix_lzip(p, n); break;
	case E_BLOCK: case E_BLOCK_HEADER: case E_BLOCK_BUF: fix_block_header(p, n); break;
	case E_INDEX: case E_INDEX_BUF: fix_index(p, n); break;
	case E_STREAM_HEADER: if (n >= 12) wr32(p + 8, ref::crc32(p + 6, 2)); break;
	case E_STREAM_FOOTER: if (n >= 12) wr32(p, ref::crc32(p + 4, 6)); break;
	default: break;
	}
	return size;
}

// ---------------------------------------------------------------- seed corpus writer: VERIF_C04_MAKE_SEEDS=<dir> ./t_c04
static int g_seed_no;
static uint8_t g_seed_s0 = 0, g_seed_s1 = 0;    // slicing seed of the next put_seed (0,0 = one shot)
static void put_seed(const std::string &dir, const std::string &name, unsigned entry, uint8_t fb, uint8_t mem, uint8_t p1, uint8_t p2, uint8_t p3, const uint8_t *data, size_t n) {
	std::string fn = name; for (auto &ch : fn) if (!(isalnum((unsigned char)ch) || ch == '-' || ch == '_' || ch == '.')) ch = '_';
	char pre[64]; snprintf(pre, sizeof pre, "%03d-%s-", g_seed_no++, entry_names[entry]);
	std::string path = dir + "/" + pre + fn;
	FILE *f = fopen(path.c_str(), "wb"); if (!f) { fprintf(stderr, "cannot write %s\n", path.c_str()); exit(3); }
	const uint8_t h[HDR] = {(uint8_t)entry, fb, mem, g_seed_s0, g_seed_s1, p1, p2, p3};
	fwrite(h, 1, HDR, f); if (n) fwrite(data, 1, n, f); fclose(f);
}
static void put_text(const std::string &dir, const char *name, unsigned entry, uint8_t p1, const std::string &t) { put_seed(dir, name, entry, 0, 0, p1, 0, 0, (const uint8_t *)t.data(), t.size()); }

static void make_seeds(const std::string &dir) {
	mkdir(dir.c_str(), 0777);
	auto &files = cm::test_files();
	if (files.empty()) { fprintf(stderr, "no tests/files under %s\n", cm::repo_dir().c_str()); exit(3); }
	static const unsigned xz_entries[5] = {E_STREAM, E_AUTO, E_FILE_INFO, E_STREAM_MT, E_STREAM_BUF};
	unsigned kx = 0, extras = 0;
	for (auto &tf : files) {
		const std::vector<uint8_t> &D = tf.data; const size_t n = D.size();
		if (n > 4096) continue;       // one 51 KB file: beyond -max_len, replayed from tests/files by other checks
		if (cm::name_ends(tf.name, ".xz")) {
			put_seed(dir, tf.name, xz_entries[kx++ % 5], 0x08, 0, 1, 0, 0, D.data(), n);
			// derived pieces of a subset: Block (header + data), Block Header, Index, Stream Header/Footer, filter flags, raw LZMA2
			const bool pick = cm::name_has(tf.name, "block_header") || cm::name_has(tf.name, "good-1-check-") || cm::name_has(tf.name, "good-2-lzma2") || cm::name_has(tf.name, "good-1-x86") || cm::name_has(tf.name, "good-1-3delta")
				|| cm::name_has(tf.name, "bad-1-lzma2-1") || cm::name_has(tf.name, "good-1-lzma2-1") || cm::name_has(tf.name, "bad-2-index-1") || cm::name_has(tf.name, "good-1-sparc") || cm::name_has(tf.name, "unsupported-filter_flags-1");
			if (!pick || n < 36) continue;
			const uint8_t chk = D[7] & 15; ++extras;
			if (D[12] != 0) {
				put_seed(dir, tf.name, (extras % 3 == 0) ? E_BLOCK_BUF : E_BLOCK, 0, 0, chk, 0, 0, D.data() + 12, n - 12);
				if (extras % 2) put_seed(dir, tf.name, E_BLOCK_HEADER, 0, 0, chk, 0, 0, D.data() + 12, std::min<size_t>(n - 12, ((size_t)D[12] + 1) * 4));
				if (!(D[13] & 0xC0) && extras % 2 == 0) put_seed(dir, tf.name, E_FILTER_FLAGS, 0, 0, 0, 0, 0, D.data() + 14, std::min<size_t>(n - 14, 12));
			}
			ref::XzOpts o; ref::XzResult R = ref::xz_decode(D.data(), n, o);
			if (R.status == ref::RS_OK && !R.streams.empty()) {
				const ref::StreamLayout &S = R.streams[0];
				put_seed(dir, tf.name, (extras & 1) ? E_INDEX : E_INDEX_BUF, 0, 0, 0, 0, 0, D.data() + S.index_off, S.index_size);
				if (S.blocks.size() == 1 && S.blocks[0].filters.size() == 1 && extras % 2) put_seed(dir, tf.name, (extras % 4 == 1) ? E_RAW : E_RAW_BUF, 0, 0, 0, 0, 4, D.data() + S.blocks[0].data_off, S.blocks[0].data_size);
			}
			if (extras % 3 == 1) { put_seed(dir, tf.name, E_STREAM_HEADER, 0, 0, 0, 0, 0, D.data(), 12); put_seed(dir, tf.name, E_STREAM_FOOTER, 0, 0, 0, 0, 0, D.data() + n - 12, 12); }
		} else if (cm::name_ends(tf.name, ".lzma")) {
			put_seed(dir, tf.name, (kx++ & 1) ? E_AUTO : E_ALONE, 0, 0, 0, 0, 0, D.data(), n);
			if (n > 18 && cm::name_has(tf.name, "good-")) {
				put_seed(dir, tf.name, E_RAW, 0, 0, 1, D[0], 5, D.data() + 13, n - 13);            // raw LZMA1 with the header's lc/lp/pb
				std::vector<uint8_t> m(D.begin() + 13, D.end()); m[0] = (uint8_t)~D[0];
				put_seed(dir, tf.name, E_MICROLZMA, 0, 0, 0, 13, 0, m.data(), m.size());
			}
		} else if (cm::name_ends(tf.name, ".lz")) {
			put_seed(dir, tf.name, (kx++ & 1) ? E_AUTO : E_LZIP, 0x08, 0, 0, 0, 0, D.data(), n);
		}
	}
	const std::string lng(700, 'q');
	const char *texts[] = {"6", "-9e", "lzma2:dict=1MiB", "x86 delta:dist=4 lzma2:preset=6e,lc=0,lp=4,pb=4", "--arm64=start=4096--lzma2=mode=fast,nice=273,mf=bt4,depth=5",
		"lzma1:lc=3,lp=0,pb=2,dict=4KiB,mode=normal,mf=hc3", "riscv powerpc ia64 sparc lzma2", "delta:dist=256  armthumb:start=2 lzma2:dict=1536MiB", "lzma2:dict=4294967295,nice=2", "lzma2:preset=0,,mf=bt2,nice=2,"};
	int t = 0; for (const char *s : texts) { char nm[24]; snprintf(nm, sizeof nm, "text%d", t++); put_text(dir, nm, E_STR_TO_FILTERS, 1, s); }
	put_text(dir, "long-filter-name", E_STR_TO_FILTERS, 1, lng + ":dict=1");
	put_text(dir, "long-option-name", E_STR_TO_FILTERS, 1, "lzma2:" + lng + "=1");
	put_text(dir, "long-option-value", E_STR_TO_FILTERS, 1, "lzma2:mf=" + lng);
	{ const uint8_t a[] = {0x31, 0, 0, 0, 2, 0, 2}; put_seed(dir, "list-all", E_STR_LIST, 0, 0, 0x80, 0, 1, a, sizeof a); const uint8_t b2[] = {0x10, 0, 0, 0, 3, 3, 2, 0}; put_seed(dir, "list-one", E_STR_LIST, 0, 0, 0, 0, 1, b2, sizeof b2); }
	{ const uint8_t v1[] = {0x00}, v2[] = {0x80, 0x01}, v3[] = {0xFF, 0xFF, 0xFF, 0xFF, 0xFF, 0xFF, 0xFF, 0xFF, 0x7F}, v4[] = {0xFF, 0xFF, 0xFF, 0xFF, 0xFF, 0xFF, 0xFF, 0xFF, 0xFF, 0x01}, v5[] = {0x80, 0x00};
		put_seed(dir, "vli-0", E_VLI, 0, 0, 0, 0, 0, v1, 1); put_seed(dir, "vli-128", E_VLI, 0, 0, 0, 0, 0, v2, 2); put_seed(dir, "vli-max", E_VLI, 0, 0, 0, 0, 0, v3, 9); put_seed(dir, "vli-10-bytes", E_VLI, 0, 0, 0, 0, 0, v4, 10); put_seed(dir, "vli-padded", E_VLI, 0, 0, 0, 0, 0, v5, 2); }
	{ const uint8_t l2[] = {0x10}, l1[] = {0x5D, 0, 0, 0x10, 0}, dl[] = {0x03}, bj[] = {0, 0x10, 0, 0};
		put_seed(dir, "props-lzma2", E_PROPERTIES, 0, 0, 0, 0, 0, l2, 1); put_seed(dir, "props-lzma1", E_PROPERTIES, 0, 0, 1, 0, 0, l1, 5); put_seed(dir, "props-delta", E_PROPERTIES, 0, 0, 2, 0, 0, dl, 1); put_seed(dir, "props-x86", E_PROPERTIES, 0, 0, 3, 0, 0, bj, 4); }
	// an Index that announces about 2^60 Records (a legal 9-byte VLI) and then carries one: the preallocation size computation must
	// not wrap (expected: LZMA_MEM_ERROR / LZMA_MEMLIMIT_ERROR / LZMA_DATA_ERROR, never a small allocation that is written past)
	for (unsigned sh = 59; sh <= 62; ++sh) for (unsigned e = 0; e < 2; ++e) {
		std::vector<uint8_t> ix; ix.push_back(0x00); uint8_t vb[9]; size_t vn = ref::vli_encode((1ull << sh) + (sh == 60 ? 1 : 0), vb); ix.insert(ix.end(), vb, vb + vn);
		ix.push_back(0x20); ix.push_back(0x10); while (ix.size() & 3) ix.push_back(0); uint32_t crc = ref::crc32(ix.data(), ix.size()); for (int i = 0; i < 4; ++i) ix.push_back((uint8_t)(crc >> (8 * i)));
		char nm[48]; snprintf(nm, sizeof nm, "index-announces-2^%u-records", sh); put_seed(dir, nm, e ? E_INDEX_BUF : E_INDEX, 0, 0, 0, 0, 0, ix.data(), ix.size());
	}
	// BCJ filters whose 4-byte Properties field is present and holds start offset 0 (valid; liblzma's own encoder omits the field)
	{ static const uint8_t ids[] = {0x04, 0x05, 0x07, 0x0A, 0x0B}; unsigned k = 0;
		for (uint8_t id : ids) { const uint8_t ff[6] = {id, 0x04, 0, 0, 0, 0}; char nm[48]; snprintf(nm, sizeof nm, "filter-flags-bcj-%02x-explicit-offset-0", id); put_seed(dir, nm, E_FILTER_FLAGS, 0, 0, 0, 0, 0, ff, 6);
			// the same inside a Block Header: [size][flags=1: two filters][BCJ id, 4, 0000][LZMA2 0x21, 1, dict][padding][CRC32]
			std::vector<uint8_t> h = {0, 0x01, id, 0x04, 0, 0, 0, 0, 0x21, 0x01, 0x08}; while ((h.size() + 4) & 3) h.push_back(0); h[0] = (uint8_t)((h.size() + 4) / 4 - 1);
			uint32_t crc = ref::crc32(h.data(), h.size()); for (int i = 0; i < 4; ++i) h.push_back((uint8_t)(crc >> (8 * i)));
			snprintf(nm, sizeof nm, "block-header-bcj-%02x-explicit-offset-0", id); put_seed(dir, nm, (k++ & 1) ? E_BLOCK : E_BLOCK_HEADER, 0, 0, 1, 0, 0, h.data(), h.size()); } }
	// raw LZMA1 streams cut inside a symbol that costs ~17 input bytes (ref/lzma_adv.h): with the whole input in one exact-size
	// block, an unchecked fast decoding loop entered with fewer bytes left than one symbol can need reads past the block
	{ ref::AdvStream A = ref::adversarial_stream(160, 0);
		for (unsigned t = 10; t <= 20; ++t) { char nm[64]; snprintf(nm, sizeof nm, "syn-expensive-symbol-%zu-bytes-cut-after-%u", A.e_cost, t);
			put_seed(dir, nm, E_RAW, 0, 0, 1, 0, 4, A.bytes.data(), std::min(A.bytes.size(), A.e_first + t)); }
		put_seed(dir, "syn-expensive-symbol-whole", E_RAW, 0, 0, 1, 0, 4, A.bytes.data(), A.bytes.size()); }
	// threaded decoder: two Blocks with both sizes in their headers (as the threaded encoder writes them), the first one valid, the
	// second one invalid from its first byte (LZMA2 control byte 0x03), input and output in small pieces: the worker of Block 2
	// fails while the main thread is still handing it the rest of the Block and the output of Block 1 is still being fetched
	{ std::vector<uint8_t> text; for (unsigned i = 0; text.size() < 800; ++i) { char b[32]; int k = snprintf(b, sizeof b, "line %u of the text, ", i * 7919u % 1000); text.insert(text.end(), b, b + k); }
		text.resize(800);
		lzma_mt mt; memset(&mt, 0, sizeof mt); mt.threads = 1; mt.block_size = 400; mt.preset = 0; mt.check = LZMA_CHECK_CRC32;
		lzma_stream e = LZMA_STREAM_INIT; std::vector<uint8_t> D(4096);
		if (lzma_stream_encoder_mt(&e, &mt) != LZMA_OK) { fprintf(stderr, "threaded encoder unavailable\n"); exit(3); }
		e.next_in = text.data(); e.avail_in = text.size(); e.next_out = D.data(); e.avail_out = D.size();
		if (lzma_code(&e, LZMA_FINISH) != LZMA_STREAM_END) { fprintf(stderr, "seed encode failed\n"); exit(3); }
		D.resize(D.size() - e.avail_out); lzma_end(&e);
		ref::XzOpts o; ref::XzResult R = ref::xz_decode(D.data(), D.size(), o);
		if (R.status != ref::RS_OK || R.streams.empty() || R.streams[0].blocks.size() != 2) { fprintf(stderr, "seed layout unexpected\n"); exit(3); }
		const size_t off2 = R.streams[0].blocks[1].data_off;
		for (unsigned v = 0; v < 4; ++v) { std::vector<uint8_t> B = D; B[off2 + (v & 1) * 40] = 0x03; g_seed_s0 = v < 2 ? 1 : 2; g_seed_s1 = (uint8_t)(v * 37);
			char nm[80]; snprintf(nm, sizeof nm, "syn-mt-two-sized-blocks-second-invalid-at-byte-%u-sliced-%u", (v & 1) * 40, v);
			put_seed(dir, nm, E_STREAM_MT, v == 3 ? 0x20 : 0, 0, 1 + (v & 1), 0, 0, B.data(), B.size()); }
		g_seed_s0 = g_seed_s1 = 0; }
	fprintf(stderr, "wrote %d seed cases to %s\n", g_seed_no, dir.c_str());
}

extern "C" int LLVMFuzzerInitialize(int *, char ***) {
	const char *d = getenv("VERIF_C04_MAKE_SEEDS");
	if (d && *d) { make_seeds(d); exit(0); }
	return 0;
}
