// drv.h - the one careful lzma_code() loop everybody uses.
//
// run(strm, in, schedule, final_action, out_cap) feeds `in` in the pieces the
// schedule dictates and collects the output in the output windows it dictates.
// Rules (api/lzma/base.h):
//  * input pieces are handed over with LZMA_RUN; the action becomes
//    `final_action` only once the last input byte has been made available and
//    from then on avail_in is only ever reduced by liblzma;
//  * LZMA_BUF_ERROR is terminal only if the driver had nothing more to give
//    (all input offered, avail_out > 0); otherwise it is the documented
//    non-fatal "second idle call" and the driver continues;
//  * NO_CHECK / UNSUPPORTED_CHECK / GET_CHECK are recorded, the loop continues;
//  * the number of calls is bounded; exceeding the bound is reported.
#pragma once
#include <lzma.h>
#include <vector>
#include <stdint.h>
#include <string>
#include "vgen.h"

namespace drv {

struct Piece { uint32_t in; uint32_t out; };
struct Schedule {
	std::vector<Piece> pieces;    // after the pieces: everything, big windows
	uint32_t tail_in = 0, tail_out = 0; // if nonzero: repeat this piece size forever instead of "everything"
	bool one_shot() const { return pieces.empty() && !tail_in && !tail_out; }
	uint64_t hash() const { uint64_t h = vg::hcomb(tail_in, tail_out); for (auto &p : pieces) h = vg::hcomb(h, vg::hcomb(p.in, p.out)); return h; }
	std::string describe() const {
		std::string s = "{\"pieces\":[";
		for (size_t i = 0; i < pieces.size() && i < 24; ++i) { if (i) s += ","; s += "[" + std::to_string(pieces[i].in) + "," + std::to_string(pieces[i].out) + "]"; }
		if (pieces.size() > 24) s += ",\"...\"";
		s += "],\"n\":" + std::to_string(pieces.size()) + ",\"tail\":[" + std::to_string(tail_in) + "," + std::to_string(tail_out) + "]}";
		return s; }
};

// Draw a schedule from the case.  Styles: one shot, byte-at-a-time, fixed small
// pieces, explicit list with empty calls.
static inline Schedule draw_schedule(vg::Case &c, bool allow_oneshot = true) {
	Schedule s;
	unsigned style = c.u(6);
	if (style == 0 && !allow_oneshot) style = 1;
	switch (style) {
	case 0: break;                                   // one shot
	case 1: s.tail_in = 1; s.tail_out = 1; break;      // 1 byte in, 1 byte out
	case 2: s.tail_in = 1 + c.u(16); s.tail_out = 1 + c.u(16); break;
	case 3: s.tail_in = 1; s.tail_out = 1u << 20; break;
	case 4: s.tail_in = 1u << 20; s.tail_out = 1 + c.u(4); break;
	default: {
		unsigned n = 1 + c.u(24);
		for (unsigned i = 0; i < n; ++i) { Piece p; p.in = c.small(300); p.out = c.small(300); if (c.chance(24)) p.in = c.u16(); if (c.chance(24)) p.out = c.u16(); s.pieces.push_back(p); }
		if (c.flag()) { s.tail_in = 1 + c.u(64); s.tail_out = 1 + c.u(64); }
		break; }
	}
	return s;
}

struct Result {
	lzma_ret ret = LZMA_OK;
	std::vector<uint8_t> out;
	uint64_t total_in = 0, total_out = 0;
	std::vector<int> info;      // informational codes in order
	size_t calls = 0;
	bool capped = false;        // output cap reached: inconclusive-large
	bool call_bound = false;    // bounded-calls rule violated
	bool finished() const { return ret == LZMA_STREAM_END; }
};

static inline const char *retname(int r) {
	static const char *n[] = {"OK", "STREAM_END", "NO_CHECK", "UNSUPPORTED_CHECK", "GET_CHECK", "MEM_ERROR",
		"MEMLIMIT_ERROR", "FORMAT_ERROR", "OPTIONS_ERROR", "DATA_ERROR", "BUF_ERROR", "PROG_ERROR", "SEEK_NEEDED"};
	if (r >= 0 && r <= 12) return n[r];
	static char b[32]; snprintf(b, sizeof b, "ret%d", r); return b;
}

struct Opts {
	lzma_action final_action = LZMA_FINISH;
	size_t out_cap = 8u << 20;
	bool stop_on_memlimit = true;
	size_t out_hint = 0;        // expected output size (initial buffer capacity)
	size_t small_call_budget = 20000; // after this many calls the tail pieces become "everything" (keeps 1-byte schedules affordable on MiB inputs)
	size_t idle_limit = 3;      // consecutive no-progress calls with everything offered (threaded coders with a timeout: raise)
	size_t extra_calls = 0;     // added to the call bound: threaded coders with a timeout return LZMA_OK without progress every few ms while workers are busy (wall clock, not a property of the coder)
	bool input_beyond_declared_size = false; // MicroLZMA decoder: it never reads past the comp_size it was told, so unread input + free output + LZMA_BUF_ERROR is legitimate there
	// called after every lzma_code(); return false to stop the loop
	bool (*hook)(lzma_stream *, lzma_ret, void *) = nullptr; void *hook_arg = nullptr;
};

static inline Result run(lzma_stream *strm, const uint8_t *in, size_t n, const Schedule &sch, const Opts &o = Opts()) {
	Result r;
	static uint8_t dummy_in[1];
	// raw growable buffer (no zero fill): windows are limited to the free capacity, which
	// doubles whenever it is used up, so "one shot" means few big windows, not one 48 MiB memset
	size_t capa = std::min<size_t>(o.out_cap, std::max<size_t>(o.out_hint, 1u << 16));
	uint8_t *obuf = (uint8_t *)malloc(capa ? capa : 1);
	if (!obuf) vg::harness_bug("out of memory in driver");
	size_t produced = 0, given = 0;
	size_t pi = 0;
	const uint64_t tin0 = strm->total_in, tout0 = strm->total_out;
	strm->next_in = n ? in : dummy_in; strm->avail_in = 0;
	size_t idle_everything = 0;
	const size_t bound_base = 64 + 2 * sch.pieces.size();
	for (;;) {
		uint32_t ip, op;
		if (pi < sch.pieces.size()) { ip = sch.pieces[pi].in; op = sch.pieces[pi].out; ++pi; }
		else if ((sch.tail_in || sch.tail_out) && r.calls < o.small_call_budget) { ip = sch.tail_in; op = sch.tail_out; }
		else { ip = UINT32_MAX; op = UINT32_MAX; }
		size_t consumed = (size_t)(strm->total_in - tin0);
		if (given < n) { size_t add = std::min<size_t>(ip, n - given); given += add; }
		strm->next_in = (n ? in : dummy_in) + consumed;
		strm->avail_in = given - consumed;
		lzma_action act = (given == n) ? o.final_action : LZMA_RUN;
		size_t room = o.out_cap - produced;
		size_t win = std::min<size_t>(op, room);
		if (win > capa - produced) {
			if (capa - produced < 4096 && capa < o.out_cap) { capa = std::min<size_t>(o.out_cap, capa * 2); obuf = (uint8_t *)realloc(obuf, capa); if (!obuf) vg::harness_bug("out of memory in driver"); }
			win = std::min<size_t>(win, capa - produced);
		}
		strm->next_out = obuf + produced; strm->avail_out = win;
		const bool everything = (given == n) && win > 0;
		lzma_ret ret = lzma_code(strm, act);
		++r.calls;
		size_t got = win - strm->avail_out;
		produced += got;
		{ // exact accounting (C11): pointers, counters and totals move together
			size_t cons2 = (size_t)(strm->total_in - tin0);
			if (cons2 < consumed || cons2 > given || strm->avail_in != given - cons2 || strm->next_in != (n ? in : dummy_in) + cons2
					|| strm->next_out != obuf + produced || strm->avail_out > win)
				vg::violation("C11:accounting", "after call %zu: consumed %zu->%zu given %zu avail_in %zu next_in off %td, out got %zu win %zu",
					r.calls, consumed, cons2, given, strm->avail_in, strm->next_in - (n ? in : dummy_in), got, win);
		}
		if (o.hook && !o.hook(strm, ret, o.hook_arg)) { r.ret = ret; break; }
		if (ret == LZMA_OK) {
			if (produced == o.out_cap && room > 0 && got == room) {
				// cap reached; give the coder one chance to say STREAM_END with no room
				strm->next_out = obuf + produced; strm->avail_out = 0;
				// (only valid if the action/avail_in rules are kept, which they are)
				lzma_ret r2 = lzma_code(strm, act); ++r.calls;
				if (r2 == LZMA_STREAM_END || (r2 != LZMA_OK && r2 != LZMA_BUF_ERROR && r2 != LZMA_NO_CHECK && r2 != LZMA_UNSUPPORTED_CHECK && r2 != LZMA_GET_CHECK)) { r.ret = r2; break; }
				r.capped = true; r.ret = LZMA_OK; break;
			}
		} else if (ret == LZMA_NO_CHECK || ret == LZMA_UNSUPPORTED_CHECK || ret == LZMA_GET_CHECK) {
			r.info.push_back((int)ret);
		} else if (ret == LZMA_BUF_ERROR) {
			// base.h: LZMA_BUF_ERROR means no progress is *possible*.  A call that was handed both unread input and free output
			// space can always make progress (or fail for another reason, or - threaded coders - wait / time out with LZMA_OK).
			if (given - consumed > 0 && win > 0 && !o.input_beyond_declared_size)
				vg::violation("C11:buf-error-with-input-and-output-space", "call %zu returned LZMA_BUF_ERROR although it was given %zu bytes of unread input and %zu bytes of output space (total_in %llu)",
					r.calls, given - consumed, win, (unsigned long long)strm->total_in);
			if (everything) { r.ret = ret; break; }
			// non-fatal: continue with the next pieces
		} else if (ret == LZMA_MEMLIMIT_ERROR && !o.stop_on_memlimit) {
			// caller's hook is expected to have raised the limit
		} else { r.ret = ret; break; }
		if (room == 0) { r.capped = true; r.ret = LZMA_OK; break; }
		// bounded number of calls: every call either moves a byte, or is one of
		// the schedule's idle pieces, or is the single idle call before BUF_ERROR.
		if (got == 0 && (size_t)(strm->total_in - tin0) == consumed && everything) ++idle_everything; else if (everything) idle_everything = 0;
		if (idle_everything > o.idle_limit || r.calls > bound_base + 2 * (n + produced) + 16 + o.extra_calls) { r.call_bound = true; r.ret = ret; break; }
	}
	r.total_in = strm->total_in - tin0; r.total_out = strm->total_out - tout0;
	r.out.assign(obuf, obuf + produced); free(obuf);
	if (r.total_out != produced) vg::violation("C11:total_out-accounting", "total_out %llu != produced %zu", (unsigned long long)r.total_out, produced);
	return r;
}

} // namespace drv
