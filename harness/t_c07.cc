// t_c07.cc - C07: threaded decompression == single-threaded under every schedule.
// Built twice from this source:
//   sched variant (VARIANT_SCHED): liblzma's pthread calls go to sched/vsched.cc, the case owns the schedule;
//   tsan  variant (VARIANT_TSAN):  real pthreads, OS scheduling, ThreadSanitizer as the race oracle.
// case = file (1-3 Streams x Blocks with/without size fields, optional BCJ/delta, optional damage/truncation)
//        x lzma_mt (threads, memlimit_threading, memlimit_stop, timeout, flags) x slicing x life-cycle events
//        (early lzma_end, re-init on the same handle, memlimit_set / get_progress between calls) x schedule bytes.
// Oracle: bytes + final status == lzma_stream_decoder on the same input/flags (behind BCJ on rejected input:
// status and length); FAIL_FAST: error whenever ST errors, bytes a prefix; termination (deadlock / livelock
// detectors of the scheduler, bounded calls); every thread joined by lzma_end; allocator balanced; progress sane.
#include "vgen.h"
#include "drv.h"
#include "enccfg.h"
#include "common.h"
#include "alloc.h"
#ifdef VARIANT_SCHED
#include "vsched.h"
#endif

using namespace vg;

static va::Alloc *g_alp;
static va::Alloc &ALR() { if (!g_alp) { g_alp = new va::Alloc(); g_alp->cap = 192u << 20; g_alp->poison = false; } return *g_alp; }
static const lzma_allocator *AL() { return &ALR().a; }
extern "C" size_t vfresh_max(void) { return 220; }

#ifdef VARIANT_SCHED
static void sched_reporter(const char *kind, const char *details) {
	std::string sig = std::string("C07:sched-") + (strncmp(kind, "deadlock", 8) == 0 ? "deadlock" : "misuse");
	violation(sig.c_str(), "%s; threads: %s", kind, details);
}
#endif

static inline uint64_t sseed_peek(const uint8_t *d, size_t n) { return vg::hash_bytes(d, n) ^ 0x7C07; }

// ---- file generation -------------------------------------------------------------------------------
struct GenFile { std::vector<uint8_t> bytes; std::vector<uint8_t> plain; bool has_bcj = false; std::string desc; unsigned blocks = 0, streams = 0; uint64_t tight_mem = 0; /* about what one Block of a Block-by-Block stream needs in threaded mode */ };

static void gen_stream(Case &c, GenFile &F) {
	// one Stream: either the threaded encoder (Blocks carry size fields) or the single-threaded one with
	// FULL_FLUSH between pieces (Blocks without size fields => the threaded decoder must use direct mode)
	bool with_sizes = !c.rare(76);
	lzma_options_lzma lz; lzma_lzma_preset(&lz, 0); lz.dict_size = 4096u << c.u(5);
	if (c.rare(60)) { lz.lc = c.u(5); lz.lp = c.u(5 - lz.lc); lz.pb = c.u(5); }
	lzma_options_delta od = {LZMA_DELTA_TYPE_BYTE, 1 + c.u(4), 0, 0, 0, 0, NULL, NULL};
	lzma_options_bcj ob; memset(&ob, 0, sizeof ob);
	lzma_filter fl[4]; unsigned nf = 0; uint8_t fb = c.byte();
	bool bcj = false;
	if (fb < 40) { fl[nf].id = LZMA_FILTER_DELTA; fl[nf++].options = &od; }
	else if (fb < 80) { fl[nf].id = ec::bcj_ids[c.u(8)]; fl[nf++].options = c.flag() ? &ob : NULL; bcj = true; }
	fl[nf].id = LZMA_FILTER_LZMA2; fl[nf++].options = &lz; fl[nf].id = LZMA_VLI_UNKNOWN; fl[nf].options = NULL;
	lzma_check chk = c.pick({LZMA_CHECK_CRC32, LZMA_CHECK_CRC64, LZMA_CHECK_NONE, LZMA_CHECK_SHA256});
	unsigned nblocks = 2 + c.small(10);
	std::vector<uint8_t> plain; std::vector<size_t> cuts;
	for (unsigned b = 0; b < nblocks; ++b) { Recipe r = draw_recipe(c, c.rare(40) ? (1u << 16) : (1u << 12), lz.dict_size); if (b && c.rare(20)) r.len = 0; expand_into(r, plain); cuts.push_back(plain.size()); }
	lzma_stream s = LZMA_STREAM_INIT; s.allocator = NULL;
	std::vector<uint8_t> out(lzma_stream_buffer_bound(plain.size()) + nblocks * 128 + 1024);
	s.next_out = out.data(); s.avail_out = out.size();
	static uint8_t z[1];
	if (with_sizes) {
		lzma_mt mt; memset(&mt, 0, sizeof mt); mt.threads = 1; mt.filters = fl; mt.check = chk; mt.block_size = 1u << 20; mt.timeout = 0;
		// single worker thread of the *native* encoder, blocks cut with FULL_FLUSH at our cut points (size fields are written)
		if (lzma_stream_encoder_mt(&s, &mt) != LZMA_OK) harness_bug("mt encoder init");
	} else if (lzma_stream_encoder(&s, fl, chk) != LZMA_OK) harness_bug("encoder init");
	size_t pos = 0;
	for (unsigned b = 0; b < nblocks; ++b) {
		s.next_in = plain.empty() ? z : plain.data() + pos; s.avail_in = cuts[b] - pos; pos = cuts[b];
		lzma_action a = (b + 1 == nblocks) ? LZMA_FINISH : LZMA_FULL_FLUSH;
		lzma_ret r; do { r = lzma_code(&s, a); } while (r == LZMA_OK);
		if (r != LZMA_STREAM_END) harness_bug("generator encode failed: %d", (int)r);
	}
	out.resize(out.size() - s.avail_out); lzma_end(&s);
	F.bytes.insert(F.bytes.end(), out.begin(), out.end()); F.plain.insert(F.plain.end(), plain.begin(), plain.end());
	F.has_bcj |= bcj; F.blocks += nblocks; ++F.streams;
	char b[160]; snprintf(b, sizeof b, "{\"sizes\":%s,\"blocks\":%u,\"plain\":%zu,\"dict\":%u,\"filter\":%u,\"check\":%d}", with_sizes ? "true" : "false", nblocks, plain.size(), lz.dict_size, (unsigned)fb, (int)chk);
	if (!F.desc.empty()) F.desc += ","; F.desc += b;
}

// One Stream assembled Block by Block (lzma_block_buffer_encode + hand-made Index): every Block individually with or without
// the size fields in its header, so that Blocks decoded by worker threads and Blocks that force direct mode alternate inside one
// Stream (no encoder of the project writes such a Stream; the format allows it).
static void gen_stream_mixed(Case &c, GenFile &F) {
	lzma_options_lzma lz; lzma_lzma_preset(&lz, 0); lz.dict_size = 4096u << c.u(5);
	lzma_filter fl[2] = {{LZMA_FILTER_LZMA2, &lz}, {LZMA_VLI_UNKNOWN, NULL}};
	lzma_check chk = c.pick({LZMA_CHECK_CRC32, LZMA_CHECK_CRC64, LZMA_CHECK_NONE, LZMA_CHECK_SHA256});
	// now and then hundreds of tiny Blocks: per-Block bookkeeping (queue, memory accounting, Index) gets many rounds in one Stream
	const bool many = c.rare(24); unsigned nblocks = many ? 100 + c.u(300) : 2 + c.small(8); std::string pattern; uint64_t max_unc = 0, max_comp = 0;
	lzma_stream_flags sf; memset(&sf, 0, sizeof sf); sf.version = 0; sf.check = chk;
	std::vector<uint8_t> out(LZMA_STREAM_HEADER_SIZE);
	if (lzma_stream_header_encode(&sf, out.data()) != LZMA_OK) harness_bug("stream header encode");
	lzma_index *idx = lzma_index_init(NULL); if (!idx) harness_bug("index init");
	for (unsigned b = 0; b < nblocks; ++b) {
		Recipe r = draw_recipe(c, c.rare(40) ? (1u << 16) : (1u << 12), lz.dict_size); if (r.len == 0) r.len = 1 + c.u(40);
		if (many) { r.kind = RK_RANDOM; r.len = 1 + (uint32_t)((r.seed + b) % 40); r.seed += b; }
		std::vector<uint8_t> plain = expand(r);
		lzma_block blk; memset(&blk, 0, sizeof blk); blk.version = 1; blk.check = chk; blk.filters = fl;
		std::vector<uint8_t> buf(lzma_block_buffer_bound(plain.size())); size_t pos = 0;
		if (lzma_block_buffer_encode(&blk, NULL, plain.data(), plain.size(), buf.data(), &pos, buf.size()) != LZMA_OK) harness_bug("block buffer encode");
		const uint32_t old_hs = blk.header_size; const lzma_vli comp = blk.compressed_size, unc = blk.uncompressed_size;
		const bool sizes = many ? ((r.seed >> 3) % 8 != 0) : c.flag(); if (pattern.size() < 40) pattern += sizes ? 'S' : 'n'; max_unc = std::max<uint64_t>(max_unc, unc); max_comp = std::max<uint64_t>(max_comp, comp);
		std::vector<uint8_t> hdr(buf.begin(), buf.begin() + old_hs);
		if (!sizes) {
			blk.compressed_size = LZMA_VLI_UNKNOWN; blk.uncompressed_size = LZMA_VLI_UNKNOWN;
			if (lzma_block_header_size(&blk) != LZMA_OK) harness_bug("block header size"); hdr.assign(blk.header_size, 0);
			if (lzma_block_header_encode(&blk, hdr.data()) != LZMA_OK) harness_bug("block header encode");
		}
		const lzma_vli unpadded = hdr.size() + comp + lzma_check_size(chk);
		out.insert(out.end(), hdr.begin(), hdr.end()); out.insert(out.end(), buf.begin() + old_hs, buf.begin() + pos);   // data + padding + check
		if (lzma_index_append(idx, NULL, unpadded, unc) != LZMA_OK) harness_bug("index append");
		F.plain.insert(F.plain.end(), plain.begin(), plain.end());
	}
	size_t isz = (size_t)lzma_index_size(idx), at = out.size(), ipos = 0; out.resize(at + isz + LZMA_STREAM_HEADER_SIZE);
	if (lzma_index_buffer_encode(idx, out.data() + at, &ipos, isz) != LZMA_OK) harness_bug("index encode");
	sf.backward_size = isz; if (lzma_stream_footer_encode(&sf, out.data() + at + isz) != LZMA_OK) harness_bug("footer encode");
	lzma_index_end(idx, NULL);
	F.bytes.insert(F.bytes.end(), out.begin(), out.end()); F.blocks += nblocks; ++F.streams;
	F.tight_mem = lzma_raw_decoder_memusage(fl) + max_unc + max_comp; if (many) vg::count("stream_of_hundreds_of_tiny_blocks");
	char d[160]; snprintf(d, sizeof d, "{\"sizes\":\"%s\",\"blocks\":%u,\"dict\":%u,\"check\":%d}", pattern.c_str(), nblocks, lz.dict_size, (int)chk);
	if (!F.desc.empty()) F.desc += ","; F.desc += d;
}

static GenFile gen_file(Case &c) {
	GenFile F; unsigned ns = 1 + c.small(2);
	for (unsigned i = 0; i < ns; ++i) { if (c.rare(64)) { gen_stream_mixed(c, F); vg::count("stream_with_and_without_size_fields_mixed"); } else gen_stream(c, F); if (i + 1 < ns && c.flag()) F.bytes.insert(F.bytes.end(), 4 * c.u(4), 0); }
	return F;
}

struct Ctl { lzma_stream *s; size_t n = 0; bool stopped = false; uint64_t calls = 0, end_after = 0; bool raise_limit = false; uint64_t last_pin = 0, last_pout = 0; unsigned idle_no_runnable = 0; bool check_progress = false; uint64_t prev_in = 0, prev_out = 0; unsigned memlimit_hits = 0; };

static bool hook(lzma_stream *s, lzma_ret ret, void *arg) {
	Ctl *k = (Ctl *)arg; ++k->calls;
	if (ret == LZMA_MEMLIMIT_ERROR) { ++k->memlimit_hits; if (k->raise_limit) { if (lzma_memlimit_set(s, UINT64_MAX) != LZMA_OK) violation("C09:memlimit-set-refused", "raising the limit to UINT64_MAX was refused"); } else return false; }
	if (k->check_progress) {
		uint64_t pi = 0, po = 0; lzma_get_progress(s, &pi, &po);
		// (C07 states nothing about progress values; the call is made for its synchronisation with the workers only)
		k->last_pin = pi; k->last_pout = po;
	}
#ifdef VARIANT_SCHED
	// livelock: calls that move nothing while no worker could run
	bool moved = s->total_in != k->prev_in || s->total_out != k->prev_out; k->prev_in = s->total_in; k->prev_out = s->total_out;
	bool all_offered = s->total_in + s->avail_in == k->n && s->avail_out > 0;
	if (!moved && ret == LZMA_OK && all_offered && vsched_others_runnable() == 0 && vsched_live_workers() > 0) { if (++k->idle_no_runnable > 16) violation("C07:livelock", "lzma_code keeps returning LZMA_OK without progress while no worker thread can run"); }
	else if (moved) k->idle_no_runnable = 0;
#endif
	if (k->end_after && k->calls >= k->end_after && (ret == LZMA_OK || ret == LZMA_NO_CHECK || ret == LZMA_UNSUPPORTED_CHECK || ret == LZMA_GET_CHECK || ret == LZMA_BUF_ERROR)) { k->stopped = true; return false; }
	return true;
}

extern "C" int LLVMFuzzerTestOneInput(const uint8_t *data, size_t size) {
	begin_case("C07");
	Case c(data, size);
	GenFile F = gen_file(c);
	std::vector<uint8_t> file = F.bytes;
	std::string mut = c.rare(110) ? cm::mutate(c, file) : "none";
	// decoder settings
	lzma_mt mt; memset(&mt, 0, sizeof mt);
	{ static const uint32_t tt[] = {3, 2, 4, 1, 6, 5}; mt.threads = tt[c.u(6)]; }
	uint8_t fb = c.byte();
	if (fb & 1) mt.flags |= LZMA_CONCATENATED; if (fb & 2) mt.flags |= LZMA_TELL_NO_CHECK; if (fb & 4) mt.flags |= LZMA_TELL_UNSUPPORTED_CHECK; if (fb & 8) mt.flags |= LZMA_TELL_ANY_CHECK;
	if ((fb & 0x30) == 0x30) mt.flags |= LZMA_IGNORE_CHECK; bool fail_fast = (fb & 0xC0) == 0xC0; if (fail_fast) mt.flags |= LZMA_FAIL_FAST;
#ifdef VARIANT_SCHED
	mt.timeout = c.pick<uint32_t>({0, 0, 1, 300});
#else
	mt.timeout = c.pick<uint32_t>({0, 0, 1, 2});
#endif
	mt.memlimit_threading = c.pick<uint64_t>({UINT64_MAX, 64u << 20, 2u << 20, 300000, 70000, 1});
	// a limit just above what one Block needs (Block-by-Block streams only): threaded mode stays possible for one Block at a time as long as the accounting is exact
	if (F.tight_mem && (sseed_peek(data, size) % 3) == 0) { static const uint32_t sl[6] = {64, 512, 2048, 4096, 8192, 16384}; mt.memlimit_threading = F.tight_mem + sl[(sseed_peek(data, size) >> 4) % 6]; count("memlimit_threading_just_above_one_block"); }
	bool low_stop = c.rare(40);
	mt.memlimit_stop = low_stop ? c.pick<uint64_t>({1, 40000, 100000}) : UINT64_MAX;
	drv::Schedule sch = drv::draw_schedule(c, true);
	unsigned life = c.u(8); // 0-4 plain, 5 early end, 6 re-init after completion, 7 re-init after early stop
	uint64_t end_after = (life == 5 || life == 7) ? 1 + c.u(40) : 0;
	bool progress = c.flag();
	int strategy = c.u(4);
	uint32_t sseed = c.u32();
	std::vector<uint8_t> sb = c.rest();
	set_desc("{\"streams\":[" + F.desc + "],\"file_len\":" + std::to_string(file.size()) + ",\"mutation\":\"" + mut + "\",\"threads\":" + std::to_string(mt.threads) + ",\"flags\":" + std::to_string(mt.flags)
		+ ",\"timeout\":" + std::to_string(mt.timeout) + ",\"memlimit_threading\":" + std::to_string(mt.memlimit_threading) + ",\"memlimit_stop\":" + std::to_string(mt.memlimit_stop)
		+ ",\"schedule\":" + sch.describe() + ",\"life\":" + std::to_string(life) + ",\"end_after\":" + std::to_string(end_after) + ",\"strategy\":" + std::to_string(strategy) + ",\"sched_bytes\":" + std::to_string(sb.size()) + "}");

	// reference: single-threaded decoder, same flags (FAIL_FAST has no meaning there)
	lzma_stream rs = LZMA_STREAM_INIT; rs.allocator = AL();
	if (lzma_stream_decoder(&rs, UINT64_MAX, mt.flags & ~LZMA_FAIL_FAST) != LZMA_OK) harness_bug("ST decoder init");
	drv::Opts ro; ro.out_cap = 16u << 20;
	// same slicing for both sides (slicing independence of the single-threaded decoder itself is C06's subject)
	drv::Result ST = drv::run(&rs, file.data(), file.size(), sch, ro); lzma_end(&rs);
	if (ST.ret == LZMA_MEM_ERROR || ST.capped) { count("environment_or_capped"); return 0; }
	if (mut == "none" && (mt.flags & LZMA_CONCATENATED) && (ST.ret != LZMA_STREAM_END || ST.out != F.plain)) violation("C01:roundtrip", "generated file does not decode to its plaintext with the single-threaded decoder (%s)", drv::retname(ST.ret));

	ALR().reset_counters(); uint64_t live0 = ALR().live_bytes;
#ifdef VARIANT_SCHED
	vsched_set_reporter(sched_reporter);
	vsched_begin(sb.data(), sb.size(), sseed, strategy);
#endif
	lzma_stream s = LZMA_STREAM_INIT; s.allocator = AL();
	lzma_ret ir = lzma_stream_decoder_mt(&s, &mt);
	if (ir != LZMA_OK) { lzma_end(&s);
#ifdef VARIANT_SCHED
		vsched_end();
#endif
		if (ir == LZMA_MEM_ERROR) { count("environment_alloc_cap"); return 0; }
		violation("C07:init-failed", "lzma_stream_decoder_mt returned %s", drv::retname(ir)); }
	Ctl k; k.s = &s; k.n = file.size(); k.end_after = end_after; k.raise_limit = true; k.check_progress = progress;
	drv::Opts o; o.out_cap = 16u << 20; o.stop_on_memlimit = false; o.hook = hook; o.hook_arg = &k; o.idle_limit = mt.timeout ? 100000 : 3;
	drv::Result MT = drv::run(&s, file.data(), file.size(), sch, o);
	bool early = k.stopped;
	uint64_t pin = 0, pout = 0; if (!early) lzma_get_progress(&s, &pin, &pout);
	drv::Result MT2; bool did_reinit = false;
	if (life == 6 || life == 7) {
		// re-initialise the same handle without lzma_end and decode the pristine file
		lzma_mt mt2 = mt; if (sseed & 1) mt2.threads = 1 + (mt.threads % 5); mt2.memlimit_stop = UINT64_MAX; mt2.flags |= LZMA_CONCATENATED; mt2.flags &= ~LZMA_FAIL_FAST;
		lzma_ret r2 = lzma_stream_decoder_mt(&s, &mt2);
		if (r2 == LZMA_OK) { Ctl k2; k2.s = &s; k2.n = F.bytes.size(); k2.raise_limit = true; drv::Opts o2 = o; o2.hook_arg = &k2; MT2 = drv::run(&s, F.bytes.data(), F.bytes.size(), sch, o2); did_reinit = true; }
		else if (r2 != LZMA_MEM_ERROR) violation("C07:reinit-failed", "re-initialisation returned %s", drv::retname(r2));
	}
	lzma_end(&s);
#ifdef VARIANT_SCHED
	struct vsched_stats st; vsched_get_stats(&st);
	vsched_end();   // reports threads that were not joined
#endif
	if (ALR().live_bytes != live0 || ALR().double_free || ALR().unknown_free) violation("C10:leak-after-end", "allocator not balanced after lzma_end: live %llu (was %llu) double_free=%d unknown_free=%d", (unsigned long long)ALR().live_bytes, (unsigned long long)live0, (int)ALR().double_free, (int)ALR().unknown_free);
	if (MT.call_bound) violation("C07:no-progress", "bounded-call rule violated (calls=%zu)", MT.calls);
	if (ALR().refused_cap) { count("environment_alloc_cap"); return 0; }

	// ---- equivalence oracle
	if (early) {
		count("early_end");
		bool longer = MT.out.size() > ST.out.size();
		if (longer && F.has_bcj && ST.ret != LZMA_STREAM_END && MT.out.size() - ST.out.size() <= 64 && known_finding("C07:bcj-error-output-length")) longer = false;
		if (longer || (!F.has_bcj && !MT.out.empty() && memcmp(MT.out.data(), ST.out.data(), MT.out.size()))) violation("C07:early-prefix", "output before early lzma_end is not a prefix of the single-threaded output");
	} else if (MT.ret == LZMA_MEM_ERROR || MT.capped) { count("environment_or_capped"); }
	else if (fail_fast) {
		count("fail_fast");
		if (ST.ret != LZMA_STREAM_END && (MT.ret == LZMA_STREAM_END || MT.ret == LZMA_OK)) violation("C07:failfast-status", "single-threaded %s but FAIL_FAST run ended with %s", drv::retname(ST.ret), drv::retname(MT.ret));
		if (ST.ret == LZMA_STREAM_END && MT.ret != LZMA_STREAM_END) violation("C07:failfast-status", "valid input rejected with %s", drv::retname(MT.ret));
		bool bcj_err = F.has_bcj && ST.ret != LZMA_STREAM_END;
		bool longer = MT.out.size() > ST.out.size();
		if (longer && bcj_err && MT.out.size() - ST.out.size() <= 64 && known_finding("C07:bcj-error-output-length")) longer = false; // same root cause as in the plain comparison
		if (longer || (!bcj_err && !MT.out.empty() && memcmp(MT.out.data(), ST.out.data(), MT.out.size()))) violation("C07:failfast-prefix", "FAIL_FAST output (%zu bytes) is not a prefix of the single-threaded output (%zu bytes)", MT.out.size(), ST.out.size());
	} else {
		bool err = ST.ret != LZMA_STREAM_END;
		bool bytes_ok = (F.has_bcj && err) ? MT.out.size() == ST.out.size() : MT.out == ST.out;
		if (MT.ret == ST.ret && !bytes_ok && F.has_bcj && err) {
			// rejected input behind BCJ: same status but a different number of bytes delivered before the error
			// (the worker decodes a whole Block into one buffer, the single-threaded decoder into the caller's windows;
			// simple_coder.c drops/keeps its look-ahead bytes differently on the error path)
			size_t a = MT.out.size(), b2 = ST.out.size();
			if ((a > b2 ? a - b2 : b2 - a) <= 64 && known_finding("C07:bcj-error-output-length")) bytes_ok = true;
		}
		if (MT.ret != ST.ret || !bytes_ok) {
			size_t d = 0; while (d < MT.out.size() && d < ST.out.size() && MT.out[d] == ST.out[d]) ++d;
			violation("C07:mt-differs-from-st", "single-threaded {%s, %zu bytes} vs threaded {%s, %zu bytes}, first difference at %zu", drv::retname(ST.ret), ST.out.size(), drv::retname(MT.ret), MT.out.size(), d);
		}
	}
	if (did_reinit && !MT2.capped && MT2.ret != LZMA_MEM_ERROR) {
		count("reinit");
		if (MT2.ret != LZMA_STREAM_END || MT2.out != F.plain) violation("C07:reinit-result", "decode after re-initialisation: %s, %zu bytes (expected %zu)", drv::retname(MT2.ret), MT2.out.size(), F.plain.size());
	}
	// ---- classes / non-triviality
	count(ST.ret == LZMA_STREAM_END ? "valid_input" : "invalid_input"); if (mut.compare(0, 5, "trunc") == 0) count("truncated");
	if (k.memlimit_hits) count("memlimit_stop_hit_then_raised"); if (F.has_bcj) count("chain_with_bcj"); if (mt.timeout) count("timeout_nonzero");
	bool nontriv;
#ifdef VARIANT_SCHED
	count("strategy_" + std::to_string(strategy));
	if (st.threads_created) count("threads_created", st.threads_created);
	if (st.max_runnable_workers >= 2) count("two_or_more_workers_runnable"); if (st.timeouts_idle) count("timed_wait_expired_idle"); if (st.timeouts_forced) count("timed_wait_expired_forced"); if (st.spurious) count("spurious_wakeups");
	count("sched_switches", st.switches);
	nontriv = st.max_live_workers >= 2 || (st.max_live_workers >= 1 && (ST.ret != LZMA_STREAM_END || early));
	if (nontriv) nontrivial(hcomb(hcomb(hash_bytes(file.data(), file.size()), hcomb(mt.threads * 977 + mt.flags, mt.memlimit_threading ^ mt.timeout)), hcomb(st.path_hash, sch.hash())));
#else
	nontriv = F.blocks >= 2 && mt.threads >= 2;
	if (nontriv) nontrivial(hcomb(hcomb(hash_bytes(file.data(), file.size()), hcomb(mt.threads * 977 + mt.flags, mt.memlimit_threading ^ mt.timeout)), sch.hash()));
#endif
	return 0;
}
