// t_c03.cc - C03: decoders accept exactly the valid streams and decode them as specified.
// (a) streams SYNTHESISED from the grammar of the formats (ref/lzma_syn.h: own range encoder + LZMA model; LZMA2 chunk
//     control bytes, Block Headers, Index, Stream framing written here from the specification) with the plaintext known
//     by construction - including everything the project's encoder never emits;
// (b) mutations of (a) and of tests/files.
// Oracle: (a) liblzma returns success and exactly the by-construction plaintext; for every input, valid or not:
// accepts(liblzma) == accepts(reference decoder), equal bytes on acceptance, prefix of the reference's partial output on
// rejection (not behind BCJ).  Error *class* is compared, exact code only where the specification fixes it.
#include "vgen.h"
#include "drv.h"
#include "common.h"
#include "alloc.h"
#include "ref/xzparse.h"
#include "ref/lzma_syn.h"
#include "ref/lzma_adv.h"
#include "ref/containers.h"

using namespace vg;

static va::Alloc *g_alp;
static const lzma_allocator *AL() { if (!g_alp) { g_alp = new va::Alloc(); g_alp->cap = 128u << 20; g_alp->poison = false; } return &g_alp->a; }
extern "C" size_t vfresh_max(void) { return 240; }

// ---------------------------------------------------------------- symbol generation
// Byte values that the BCJ filters look for (x86 E8/E9 + 00/FF high bytes, ARM EB, Thumb F0-F7/F8, PowerPC 48..01, SPARC 40/7F,
// ARM64 94/97/90, RISC-V EF/97/E7/17, IA-64 template bits): when the Block has a BCJ filter the synthesised LZMA2 payload is drawn
// from these, so that the filters really convert (and keep state across call boundaries) instead of passing text through
static bool g_bcj_alphabet = false;
static const uint8_t bcj_bytes[24] = {0xE8, 0xE9, 0x00, 0xFF, 0xEB, 0xF0, 0xF7, 0xF8, 0x48, 0x01, 0x40, 0x7F, 0x94, 0x97, 0x90, 0xEF, 0xE7, 0x17, 0x10, 0x03, 0x0F, 0x80, 0x11, 0x16};
static inline uint8_t plain_byte(unsigned k) { return g_bcj_alphabet ? bcj_bytes[k % 24] : (uint8_t)"ab\n \0xyz"[k & 7]; }
struct SymGen {
	Case &c; ref::LzmaSyn &z; std::vector<uint8_t> &win; uint32_t dict;
	std::map<std::string, unsigned> feat;
	uint32_t valid_limit() const { size_t h = win.size(); return (uint32_t)std::min<size_t>(h, dict); }
	unsigned draw_len() { uint8_t b = c.byte(); return b < 90 ? 2 + (b & 3) : (b < 120 ? 273 - (b & 1) : (b < 140 ? 17 + (b & 3) : 2 + c.u(272))); }
	// one valid symbol
	void step() {
		uint8_t k = c.byte(); uint32_t lim = valid_limit();
		if (k < 110 || lim == 0) { ref::Sym y; y.kind = ref::Sym::LIT; uint8_t lb = c.byte();
			// after a match the "matched literal" coding is used: make the literal equal / differ in the first bit / in a later bit
			if (z.s.state >= 7 && lb < 90) { unsigned mb = win[win.size() - z.s.rep0 - 1]; y.a = lb < 30 ? mb : (lb < 60 ? mb ^ 0x80 : mb ^ (1u << (lb & 7))); ++feat["matched_literal"]; }
			else y.a = lb < 200 ? plain_byte(g_bcj_alphabet ? c.byte() : lb) : c.byte();
			z.put(y, win); ++feat["lit"]; return; }
		if (k < 170) { ref::Sym y; y.kind = ref::Sym::MATCH; uint8_t db = c.byte();
			uint32_t d = db < 50 ? 0 : (db < 90 ? lim - 1 : (db < 120 ? (lim > 1 ? lim - 2 : 0) : (db < 150 ? c.u(std::min<uint32_t>(lim, 16)) : c.u32() % lim)));
			if (db >= 150 && db < 185) {
				// distances around the decoder's circular-buffer write position (lz_decoder.h: buffer of dict' + 2*288 bytes, writing
				// starts at 576 and continues at 288 after each wrap): copies that start right at / next to the physical buffer start
				uint64_t n = win.size(), Dp = dict, pos = n <= Dp ? 576 + n : 288 + ((n - Dp) % (Dp + 288));
				int64_t cand = (int64_t)pos + (int)(db % 5) - 2;
				if (cand >= 0 && cand < (int64_t)lim) { d = (uint32_t)cand; ++feat["match_at_buffer_write_position"]; }
			}
			if (d == lim - 1 && lim > 1) ++feat[lim == dict ? "match_at_dict_size_minus_1" : "match_at_full_minus_1"];
			y.a = d; y.b = draw_len(); if (y.b == 2) ++feat["len2"]; if (y.b >= 272) ++feat["len273"];
			z.put(y, win); ++feat["match"]; return; }
		if (k < 200) { if (z.s.rep0 < lim) { ref::Sym y; y.kind = ref::Sym::SHORTREP; z.put(y, win); ++feat["shortrep"]; return; } }
		{ unsigned i = c.u(4); if (z.rep(i) < lim) { ref::Sym y; y.kind = ref::Sym::REP; y.a = i; y.b = draw_len(); z.put(y, win); ++feat[std::string("rep") + (char)('0' + i)]; return; } }
		ref::Sym y; y.kind = ref::Sym::LIT; y.a = c.byte(); z.put(y, win); ++feat["lit"];
	}
};

static void draw_props(Case &c, unsigned &lc, unsigned &lp, unsigned &pb) {
	uint32_t k = c.u(16); if (k == 15) { lc = 3; lp = 0; pb = 2; return; }
	unsigned n = 0; for (lc = 0; lc <= 4; ++lc) for (lp = 0; lc + lp <= 4; ++lp) if (n++ == k) { pb = c.u(5); return; }
	lc = 0; lp = 0; pb = c.u(5);
}

// ---------------------------------------------------------------- LZMA2 stream synthesis
struct L2 { std::vector<uint8_t> bytes, plain; uint8_t dict_byte = 0; std::map<std::string, unsigned> feat; };

static L2 syn_lzma2(Case &c, const uint8_t *preset, size_t preset_len, bool allow_empty) {
	L2 R; R.dict_byte = c.rare(60) ? (uint8_t)c.u(9) : 0;               // 4 KiB .. 64 KiB mostly; output may exceed it (wrap)
	uint32_t dict = (uint32_t)ref::lzma2_dict_from_byte(R.dict_byte);
	std::vector<uint8_t> win; if (preset_len) { size_t k = std::min<size_t>(preset_len, ref::effective_dict(dict)); win.assign(preset + preset_len - k, preset + preset_len); }
	size_t emitted = win.size();
	auto flush = [&]() { R.plain.insert(R.plain.end(), win.begin() + emitted, win.end()); emitted = win.size(); };
	ref::LzmaSyn z; bool have_props = false; bool first = true; unsigned lc = 0, lp = 0, pb = 0;
	unsigned nchunks = allow_empty && c.rare(30) ? 0 : 1 + c.small(6);
	for (unsigned ci = 0; ci < nchunks; ++ci) {
		uint8_t kb = c.byte(); bool uncompressed = kb >= 200;
		bool dict_reset = (first && !preset_len) || c.rare(40);
		if (uncompressed) {
			uint32_t n = c.rare(30) ? 65536 : 1 + (c.rare(60) ? c.u16() : c.u(300)); if (n > 65536) n = 65536;
			R.bytes.push_back(dict_reset ? 0x01 : 0x02); R.bytes.push_back((uint8_t)((n - 1) >> 8)); R.bytes.push_back((uint8_t)(n - 1));
			if (dict_reset) { flush(); win.clear(); emitted = 0; have_props = false; ++R.feat["dict_reset_by_uncompressed"]; }
			Rng g(c.u32()); for (uint32_t i = 0; i < n; ++i) { uint8_t b = (uint8_t)(g.next() % 7 ? (g_bcj_alphabet ? bcj_bytes[g.below(24)] : "abc \n01"[g.below(7)]) : g.byte()); R.bytes.push_back(b); win.push_back(b); }
			++R.feat["uncompressed_chunk"]; if (n == 65536) ++R.feat["uncompressed_chunk_64k"];
		} else {
			unsigned mode = dict_reset ? 3 : (!have_props ? 2 : c.u(4)); if (mode == 3 && !dict_reset) { dict_reset = true; }
			if (dict_reset) { flush(); win.clear(); emitted = 0; ++R.feat["dict_reset"]; }
			if (mode >= 2) { unsigned nlc, nlp, npb; draw_props(c, nlc, nlp, npb); if (have_props && (nlc != lc || nlp != lp || npb != pb)) ++R.feat["props_changed_between_chunks"]; lc = nlc; lp = nlp; pb = npb; z.start(lc, lp, pb); have_props = true; }
			else if (mode == 1) { z.s.reset(lc, lp, pb); z.new_rc(); ++R.feat["state_reset_without_props"]; }
			else { z.new_rc(); ++R.feat["chunk_without_reset"]; }
			size_t before = win.size(); SymGen G{c, z, win, ref::effective_dict(dict)};
			unsigned nsym = 1 + (c.rare(40) ? c.u16() % 3000 : c.u(60));
			for (unsigned i = 0; i < nsym && win.size() - before < (1u << 21) - 300 && z.rc.out.size() < 60000; ++i) G.step();
			if (c.rare(3) && !win.empty()) {
				// a chunk whose uncompressed size needs bit 20 of the 21-bit size field (> 1 MiB; the limit is 2 MiB): long matches
				ref::Sym y; y.kind = ref::Sym::MATCH; y.a = c.u(std::min<uint32_t>(G.valid_limit(), 300)); y.b = 273; unsigned k = 3850 + c.u(3800);
				for (unsigned i = 0; i < k && win.size() - before < (1u << 21) - 300 && z.rc.out.size() < 60000; ++i) z.put(y, win);
				if (win.size() - before > (1u << 20)) ++G.feat["chunk_over_1MiB_uncompressed"];
			}
			for (auto &kv : G.feat) R.feat[kv.first] += kv.second;
			std::vector<uint8_t> comp = z.finish(); uint32_t unc = (uint32_t)(win.size() - before);
			if (unc == 0 || comp.size() > 65536) harness_bug("synthesised chunk out of range");
			R.bytes.push_back((uint8_t)(0x80 | (mode << 5) | ((unc - 1) >> 16))); R.bytes.push_back((uint8_t)((unc - 1) >> 8)); R.bytes.push_back((uint8_t)(unc - 1));
			R.bytes.push_back((uint8_t)((comp.size() - 1) >> 8)); R.bytes.push_back((uint8_t)(comp.size() - 1));
			if (mode >= 2) R.bytes.push_back((uint8_t)((pb * 5 + lp) * 9 + lc));
			R.bytes.insert(R.bytes.end(), comp.begin(), comp.end());
			++R.feat["lzma_chunk"]; if (win.size() > ref::effective_dict(dict)) ++R.feat["output_longer_than_dictionary"];
		}
		first = false;
	}
	R.bytes.push_back(0x00); flush();
	if (R.plain.empty()) ++R.feat["empty_lzma2_stream"];
	return R;
}

// ---------------------------------------------------------------- .xz framing from the specification
static void put_vli(std::vector<uint8_t> &v, uint64_t x) { uint8_t b[9]; size_t n = ref::vli_encode(x, b); v.insert(v.end(), b, b + n); }
static void put32(std::vector<uint8_t> &v, uint32_t x) { for (int i = 0; i < 4; ++i) v.push_back((uint8_t)(x >> (8 * i))); }

struct SynFile { std::vector<uint8_t> bytes, plain; bool has_bcj = false; bool unsupported_check = false; std::map<std::string, unsigned> feat; std::string desc; };

static void syn_stream(Case &c, SynFile &F) {
	static const unsigned cs[16] = {0, 4, 4, 4, 8, 8, 8, 16, 16, 16, 32, 32, 32, 64, 64, 64};
	unsigned check = c.rare(50) ? c.u(16) : c.pick<unsigned>({1, 4, 10, 0});
	bool supported = check == 0 || check == 1 || check == 4 || check == 10; if (!supported) { F.unsupported_check = true; ++F.feat["unsupported_check_id"]; }
	size_t start = F.bytes.size();
	static const uint8_t magic[6] = {0xFD, '7', 'z', 'X', 'Z', 0};
	F.bytes.insert(F.bytes.end(), magic, magic + 6); uint8_t fl[2] = {0, (uint8_t)check}; F.bytes.insert(F.bytes.end(), fl, fl + 2); put32(F.bytes, ref::crc32(fl, 2));
	unsigned nblocks = c.rare(40) ? 0 : 1 + c.small(3);
	std::vector<std::pair<uint64_t, uint64_t>> records;
	for (unsigned bi = 0; bi < nblocks; ++bi) {
		// filters
		std::vector<ref::Filter> fs; unsigned nonlast = c.small(3); if (nonlast > 3) nonlast = 3;
		for (unsigned i = 0; i < nonlast; ++i) { ref::Filter f; if (c.u(3) == 0) { f.id = ref::FID_DELTA; f.props.push_back((uint8_t)(c.rare(80) ? c.byte() : c.u(4))); ++F.feat["filter_delta"]; }
			else { f.id = ref::FID_X86 + c.u(8); unsigned al = ref::bcj_alignment(f.id); if (c.flag()) { uint32_t so = (c.rare(60) ? c.u32() : c.u(64)) / al * al; f.props.resize(4); for (int k = 0; k < 4; ++k) f.props[k] = (uint8_t)(so >> (8 * k)); } F.has_bcj = true; ++F.feat["filter_bcj"]; }
			fs.push_back(f); }
		bool block_bcj = false; for (auto &f : fs) if (f.id != ref::FID_DELTA) block_bcj = true;
		g_bcj_alphabet = block_bcj && c.chance(200); if (g_bcj_alphabet) ++F.feat["bcj_block_with_opcode_rich_payload"];
		L2 L = syn_lzma2(c, nullptr, 0, true); g_bcj_alphabet = false;
		for (auto &kv : L.feat) F.feat[kv.first] += kv.second;
		{ ref::Filter f; f.id = ref::FID_LZMA2; f.props.push_back(L.dict_byte); fs.push_back(f); }
		if (fs.size() == 4) ++F.feat["four_filters"];
		std::vector<uint8_t> plain = L.plain;
		if (ref::apply_nonlast_decode(fs, plain) != ref::RS_OK) harness_bug("reference lacks a filter");
		if (plain.empty()) ++F.feat["empty_block"];
		// Block Header
		bool has_comp = c.flag(), has_unc = c.flag(); if (has_comp || has_unc) ++F.feat["block_with_size_field"]; else ++F.feat["block_without_size_fields"];
		std::vector<uint8_t> h; h.push_back(0); h.push_back((uint8_t)((fs.size() - 1) | (has_comp ? 0x40 : 0) | (has_unc ? 0x80 : 0)));
		if (has_comp) put_vli(h, L.bytes.size()); if (has_unc) put_vli(h, plain.size());
		for (auto &f : fs) { put_vli(h, f.id); put_vli(h, f.props.size()); h.insert(h.end(), f.props.begin(), f.props.end()); }
		size_t need = h.size() + 4; size_t hs = (need + 3) & ~(size_t)3; if (c.rare(70)) { hs += 4 * (1 + c.u(6)); ++F.feat["extra_header_padding"]; } if (hs > 1024) hs = 1024;
		h.resize(hs - 4, 0); h[0] = (uint8_t)(hs / 4 - 1); put32(h, ref::crc32(h.data(), h.size()));
		F.bytes.insert(F.bytes.end(), h.begin(), h.end());
		F.bytes.insert(F.bytes.end(), L.bytes.begin(), L.bytes.end());
		F.bytes.insert(F.bytes.end(), (4 - (L.bytes.size() & 3)) & 3, 0);
		// Check
		if (check == 1) put32(F.bytes, ref::crc32_fast(plain.data(), plain.size()));
		else if (check == 4) { uint64_t v = ref::crc64_fast(plain.data(), plain.size()); for (int i = 0; i < 8; ++i) F.bytes.push_back((uint8_t)(v >> (8 * i))); }
		else if (check == 10) { uint8_t hsh[32]; ref::sha256(plain.data(), plain.size(), hsh); F.bytes.insert(F.bytes.end(), hsh, hsh + 32); }
		else for (unsigned i = 0; i < cs[check]; ++i) F.bytes.push_back(c.byte());
		records.push_back({hs + L.bytes.size() + cs[check], plain.size()});
		F.plain.insert(F.plain.end(), plain.begin(), plain.end());
	}
	if (nblocks > 1) ++F.feat["multi_block"]; if (nblocks == 0) ++F.feat["stream_without_blocks"];
	// Index
	size_t istart = F.bytes.size(); F.bytes.push_back(0); put_vli(F.bytes, records.size()); for (auto &r : records) { put_vli(F.bytes, r.first); put_vli(F.bytes, r.second); }
	while ((F.bytes.size() - istart) & 3) F.bytes.push_back(0);
	put32(F.bytes, ref::crc32(F.bytes.data() + istart, F.bytes.size() - istart));
	size_t isize = F.bytes.size() - istart;
	// Footer
	uint8_t ft[6]; uint32_t bs = (uint32_t)(isize / 4 - 1); for (int i = 0; i < 4; ++i) ft[i] = (uint8_t)(bs >> (8 * i)); ft[4] = 0; ft[5] = (uint8_t)check;
	put32(F.bytes, ref::crc32(ft, 6)); F.bytes.insert(F.bytes.end(), ft, ft + 6); F.bytes.push_back('Y'); F.bytes.push_back('Z');
	(void)start;
}

static void compare(const char *what, const SynFile *F, const std::vector<uint8_t> &bytes, bool has_bcj, int rst, const std::vector<uint8_t> &rout, const std::string &rule, const drv::Result &L) {
	if (L.ret == LZMA_MEM_ERROR || L.capped || rst == ref::RS_TOO_BIG || rst == ref::RS_REF_UNSUPPORTED) { count("environment_or_inconclusive"); return; }
	bool lok = L.ret == LZMA_STREAM_END, rok = rst == ref::RS_OK;
	if (lok != rok) violation(rok ? "C03:valid-rejected" : "C03:invalid-accepted", "%s: liblzma %s (%zu bytes) but the reference decoder says %s%s%s (%zu bytes)", what, drv::retname(L.ret), L.out.size(), rok ? "valid" : "invalid: ", rok ? "" : rule.c_str(), "", rout.size());
	if (lok) { if (L.out != rout) { size_t d = 0; while (d < L.out.size() && d < rout.size() && L.out[d] == rout[d]) ++d; violation("C03:different-bytes", "%s: both accept but decoded bytes differ at offset %zu (%zu vs %zu bytes)", what, d, L.out.size(), rout.size()); } }
	else if (!has_bcj) { if (L.out.size() > rout.size() || (!L.out.empty() && memcmp(L.out.data(), rout.data(), L.out.size()))) violation("C03:partial-output-not-prefix", "%s: rejected (%s / %s) but the %zu bytes delivered are not a prefix of the reference's partial output (%zu bytes)", what, drv::retname(L.ret), rule.c_str(), L.out.size(), rout.size()); }
	// exact code where the specification fixes it
	if (!lok && rst == ref::RS_OPTIONS_ERROR && L.ret != LZMA_OPTIONS_ERROR && L.ret != LZMA_DATA_ERROR && L.ret != LZMA_BUF_ERROR && L.ret != LZMA_FORMAT_ERROR) violation("C03:error-code", "%s: unsupported feature (%s) reported as %s", what, rule.c_str(), drv::retname(L.ret));
	(void)F; (void)bytes;
}

static void mode_stream(Case &c) {
	SynFile F; unsigned ns = 1 + c.small(2); if (ns > 3) ns = 3;
	for (unsigned i = 0; i < ns; ++i) { syn_stream(c, F); if (i + 1 < ns) { unsigned p = 4 * c.u(4); F.bytes.insert(F.bytes.end(), p, 0); if (p) ++F.feat["stream_padding"]; } }
	if (c.rare(40)) { F.bytes.insert(F.bytes.end(), 4 * (1 + c.u(3)), 0); ++F.feat["trailing_padding"]; }
	if (ns > 1) ++F.feat["multi_stream"];
	drv::Schedule sch = drv::draw_schedule(c, true);
	set_desc("{\"mode\":\"syn-stream\",\"streams\":" + std::to_string(ns) + ",\"len\":" + std::to_string(F.bytes.size()) + ",\"plain\":" + std::to_string(F.plain.size()) + ",\"schedule\":" + sch.describe() + "}");
	// valid by construction: the reference must agree with the construction (otherwise the harness is wrong)
	ref::XzOpts xo; xo.concatenated = true; xo.out_limit = F.plain.size() + 64;
	ref::XzResult X = ref::xz_decode(F.bytes.data(), F.bytes.size(), xo);
	if (X.status != ref::RS_OK || X.out != F.plain) harness_bug("reference decoder disagrees with the by-construction stream: status %d rule %s out %zu vs %zu", X.status, X.rule.c_str(), X.out.size(), F.plain.size());
	lzma_stream s = LZMA_STREAM_INIT; s.allocator = AL(); uint32_t flags = LZMA_CONCATENATED | (c.flag() ? LZMA_TELL_UNSUPPORTED_CHECK : 0);
	if (lzma_stream_decoder(&s, UINT64_MAX, flags) != LZMA_OK) harness_bug("decoder init");
	drv::Opts o; o.out_cap = F.plain.size() + 4096;
	drv::Result L = drv::run(&s, F.bytes.data(), F.bytes.size(), sch, o); lzma_end(&s);
	if (L.ret != LZMA_MEM_ERROR) {
		if (L.ret != LZMA_STREAM_END) violation("C03:valid-rejected", "synthesised valid .xz (features in description) rejected with %s after %llu of %zu bytes, %zu bytes out", drv::retname(L.ret), (unsigned long long)L.total_in, F.bytes.size(), L.out.size());
		if (L.out != F.plain) { size_t d = 0; while (d < L.out.size() && d < F.plain.size() && L.out[d] == F.plain[d]) ++d; violation("C03:different-bytes", "synthesised valid .xz decodes to %zu bytes, by construction %zu, first difference at %zu", L.out.size(), F.plain.size(), d); }
	}
	// the threaded decoder is a decoder of the same format: Blocks with size fields go to worker threads, the others (and those above
	// memlimit_threading) are decoded in direct mode in between - same verdict and bytes expected, whatever the slicing
	if (c.rare(48) && !F.unsupported_check) {
		lzma_mt mt; memset(&mt, 0, sizeof mt); mt.threads = 2 + c.u(2); mt.flags = flags; mt.timeout = 0;
		mt.memlimit_threading = c.pick<uint64_t>({UINT64_MAX, UINT64_MAX, 2u << 20, 300000}); mt.memlimit_stop = UINT64_MAX;
		lzma_stream m = LZMA_STREAM_INIT; m.allocator = AL();
		lzma_ret mr = lzma_stream_decoder_mt(&m, &mt);
		if (mr == LZMA_OK) {
			drv::Opts om; om.out_cap = F.plain.size() + 4096; om.idle_limit = 1u << 20;
			drv::Result M = drv::run(&m, F.bytes.data(), F.bytes.size(), sch, om); lzma_end(&m);
			if (M.ret != LZMA_MEM_ERROR) {
				if (M.ret != LZMA_STREAM_END) violation("C03:valid-rejected", "synthesised valid .xz rejected by lzma_stream_decoder_mt (threads %u, memlimit_threading %llu) with %s after %llu of %zu bytes, %zu bytes out", mt.threads, (unsigned long long)mt.memlimit_threading, drv::retname(M.ret), (unsigned long long)M.total_in, F.bytes.size(), M.out.size());
				if (M.out != F.plain) { size_t d = 0; while (d < M.out.size() && d < F.plain.size() && M.out[d] == F.plain[d]) ++d; violation("C03:different-bytes", "lzma_stream_decoder_mt decodes the synthesised .xz to %zu bytes, by construction %zu, first difference at %zu", M.out.size(), F.plain.size(), d); }
			}
			count("threaded_decoder_on_synthesised_stream");
		} else { lzma_end(&m); if (mr != LZMA_MEM_ERROR) harness_bug("mt decoder init"); }
	}
	for (auto &kv : F.feat) count("feat_" + kv.first, 1);
	// optional export of small synthesised files as seed cases for the C04 target (8 parameter bytes + file), see corpus/C04/syn-*
	if (const char *ex = getenv("VERIF_C03_EXPORT")) { if ((F.bytes.size() < 6000 || (F.bytes.size() < 70000 && F.feat.count("match_at_buffer_write_position") && getenv("VERIF_C03_EXPORT_BIG"))) && (F.feat.count("match_at_buffer_write_position") || F.feat.count("output_longer_than_dictionary") || F.feat.count("four_filters"))) {
		static int nexp = 0; if (nexp < 400) { ++nexp; char nm[256]; snprintf(nm, sizeof nm, "%s/syn-%016llx", ex, (unsigned long long)hash_bytes(F.bytes.data(), F.bytes.size()));
			FILE *f = fopen(nm, "wb"); if (f) { const uint8_t hdr[8] = {0 /* stream */, 0x08 /* flags as in the tests/files seeds */, 0, 0, 0, 1, 0, 0}; fwrite(hdr, 1, 8, f); fwrite(F.bytes.data(), 1, F.bytes.size(), f); fclose(f); } } } }
	// mutation of the synthesised file
	unsigned nm = c.small(3);
	for (unsigned m = 0; m < nm; ++m) {
		std::vector<uint8_t> dmg = F.bytes; std::string mut = cm::mutate(c, dmg); if (mut == "none" || dmg.empty()) continue;
		ref::XzResult XM = ref::xz_decode(dmg.data(), dmg.size(), xo);
		lzma_stream s2 = LZMA_STREAM_INIT; s2.allocator = AL(); if (lzma_stream_decoder(&s2, UINT64_MAX, LZMA_CONCATENATED) != LZMA_OK) harness_bug("decoder init");
		drv::Opts o2; o2.out_cap = F.plain.size() + (1u << 20);
		drv::Result LM = drv::run(&s2, dmg.data(), dmg.size(), drv::Schedule(), o2); lzma_end(&s2);
		{ std::string &d = g_stats.current; if (!d.empty() && d.back() == '}') { d.pop_back(); d += ",\"mutation\":\"" + mut + "\"}"; } }
		compare(("mutated synthesised stream (" + mut + ")").c_str(), &F, dmg, F.has_bcj, XM.status, XM.out, XM.rule, LM);
		count(XM.ok() ? "mutant_still_valid" : "mutant_invalid");
	}
	// field-aware mutation: change one byte inside a CRC32-protected structure (Stream Flags, Block Header incl. its size fields and
	// filter flags, Index, footer fields) and recompute that CRC32, so that only the semantic checks can object
	if (c.rare(150) && !X.streams.empty()) {
		struct Cr { size_t b, e, at; }; std::vector<Cr> crs;
		for (auto &S : X.streams) { for (auto &b : S.blocks) crs.push_back({b.hdr_off + 1, b.hdr_off + b.hdr_size - 4, b.hdr_off + b.hdr_size - 4});
			crs.push_back({S.off + 6, S.off + 8, S.off + 8}); crs.push_back({S.index_off, S.index_off + S.index_size - 4, S.index_off + S.index_size - 4}); crs.push_back({S.footer_off + 4, S.footer_off + 10, S.footer_off}); }
		Cr cr = crs[c.u((uint32_t)crs.size())]; size_t beg = cr.b == cr.at ? cr.b : (cr.b > 0 && cr.e - cr.b > 1 && cr.b == X.streams[0].blocks.size() * 0 + cr.b ? cr.b : cr.b);
		size_t i = beg + c.u32() % (cr.e - beg); std::vector<uint8_t> dmg = F.bytes; uint8_t nv = c.flag() ? (uint8_t)(dmg[i] + 1) : (uint8_t)(dmg[i] ^ (1u << c.u(8)));
		if (nv != dmg[i]) { dmg[i] = nv; size_t cb = cr.b == cr.at + 4 ? cr.b : cr.b; (void)cb;
			// Block Header CRC covers the size byte too (hdr_off .. hdr_off+hdr_size-4); the other structures start at cr.b
			size_t crc_from = cr.b; for (auto &S : X.streams) for (auto &b : S.blocks) if (cr.at == b.hdr_off + b.hdr_size - 4) crc_from = b.hdr_off;
			uint32_t crc = ref::crc32(dmg.data() + crc_from, cr.e - crc_from); for (int k = 0; k < 4; ++k) dmg[cr.at + k] = (uint8_t)(crc >> (8 * k));
			ref::XzResult XM = ref::xz_decode(dmg.data(), dmg.size(), xo);
			lzma_stream s2 = LZMA_STREAM_INIT; s2.allocator = AL(); if (lzma_stream_decoder(&s2, UINT64_MAX, LZMA_CONCATENATED) != LZMA_OK) harness_bug("decoder init");
			drv::Opts o2; o2.out_cap = F.plain.size() + (1u << 20); drv::Result LM = drv::run(&s2, dmg.data(), dmg.size(), drv::Schedule(), o2); lzma_end(&s2);
			{ std::string &d = g_stats.current; if (!d.empty() && d.back() == '}') { d.pop_back(); d += ",\"crc_consistent_edit_at\":" + std::to_string(i) + "}"; } }
			compare("synthesised stream with a CRC-consistent field edit", &F, dmg, F.has_bcj, XM.status, XM.out, XM.rule, LM);
			count(XM.ok() ? "field_edit_still_valid" : "field_edit_invalid"); }
	}
	nontrivial(hcomb(hash_bytes(F.bytes.data(), F.bytes.size()), sch.hash()));
}

// raw LZMA2 / LZMA1 through lzma_raw_decoder, with preset dictionary
static void mode_raw(Case &c) {
	bool l2 = c.flag();
	std::vector<uint8_t> pd; if (c.rare(80)) { Recipe r; r.kind = RK_TEXT; r.len = c.pick<uint32_t>({1, 30, 4096, 5000}); r.seed = c.byte(); pd = expand(r); }
	drv::Schedule sch = drv::draw_schedule(c, true);
	std::vector<uint8_t> bytes, plain; lzma_options_lzma o; memset(&o, 0, sizeof o); lzma_filter f[2]; f[1].id = LZMA_VLI_UNKNOWN; f[1].options = NULL; f[0].options = &o;
	o.preset_dict = pd.empty() ? NULL : pd.data(); o.preset_dict_size = (uint32_t)pd.size();
	std::map<std::string, unsigned> feat; ref::AdvStream adv; bool is_adv = false;
	if (l2) { L2 L = syn_lzma2(c, pd.data(), pd.size(), true); bytes = L.bytes; plain = L.plain; o.dict_size = (uint32_t)ref::lzma2_dict_from_byte(L.dict_byte); f[0].id = LZMA_FILTER_LZMA2; feat = L.feat; }
	else if (c.rare(5)) {
		// a stream whose last match costs ~15-18 input bytes (every probability on its path trained the other way first):
		// the worst case that the decoder's fast/safe loop boundary (LZMA_IN_REQUIRED) is computed for; see ref/lzma_adv.h
		pd.clear(); o.preset_dict = NULL; o.preset_dict_size = 0;
		adv = ref::adversarial_stream(100 + c.u(100), c.u(5)); is_adv = true;
		bytes = adv.bytes; plain = adv.plain; o.lc = o.lp = o.pb = 0; o.dict_size = c.flag() ? adv.dict_needed : (1u << 20);
		f[0].id = LZMA_FILTER_LZMA1EXT; o.ext_size_low = (uint32_t)plain.size(); o.ext_size_high = 0; o.ext_flags = c.flag() ? LZMA_LZMA1EXT_ALLOW_EOPM : 0;
		++feat[adv.e_cost >= 15 ? "symbol_costing_15_or_more_input_bytes" : "symbol_costing_10_to_14_input_bytes"];
	} else {
		unsigned lc, lp, pb; draw_props(c, lc, lp, pb); uint32_t dict = 4096u << c.u(4);
		if (c.rare(70)) { dict = 4097 + c.u16() % 12000; count("feat_lzma1_dictionary_size_not_a_multiple_of_16"); }   // LZMA1 allows any size; liblzma rounds up to 16 (lp/pb use the low bits of the position)
		o.dict_size = dict; o.lc = lc; o.lp = lp; o.pb = pb;
		std::vector<uint8_t> win; if (!pd.empty()) { size_t k = std::min<size_t>(pd.size(), ref::effective_dict(dict)); win.assign(pd.end() - k, pd.end()); } size_t base = win.size();
		ref::LzmaSyn z; z.start(lc, lp, pb); SymGen G{c, z, win, ref::effective_dict(dict)}; unsigned nsym = c.rare(40) ? c.u16() % 4000 : c.u(80);
		for (unsigned i = 0; i < nsym; ++i) G.step(); feat = G.feat;
		bool marker = c.flag(); bool ext = c.flag();
		if (marker) { ref::Sym y; y.kind = ref::Sym::EOPM; z.put(y, win); ++feat["end_marker"]; }
		bytes = z.finish(); plain.assign(win.begin() + base, win.end());
		if (!marker) ext = true;  // without a marker the size must be known: LZMA1EXT
		f[0].id = ext ? LZMA_FILTER_LZMA1EXT : LZMA_FILTER_LZMA1;
		if (ext) { bool known = !marker || c.flag(); uint64_t sz = known ? plain.size() : UINT64_MAX; o.ext_size_low = (uint32_t)sz; o.ext_size_high = (uint32_t)(sz >> 32); o.ext_flags = marker ? LZMA_LZMA1EXT_ALLOW_EOPM : (c.flag() ? LZMA_LZMA1EXT_ALLOW_EOPM : 0); if (known && marker) ++feat["known_size_and_marker"]; }
	}
	set_desc(std::string("{\"mode\":\"syn-raw\",\"lzma2\":") + (l2 ? "true" : "false") + ",\"len\":" + std::to_string(bytes.size()) + ",\"plain\":" + std::to_string(plain.size()) + ",\"pdict\":" + std::to_string(pd.size()) + ",\"dict\":" + std::to_string(o.dict_size) + ",\"schedule\":" + sch.describe() + "}");
	lzma_stream s = LZMA_STREAM_INIT; s.allocator = AL();
	{ lzma_ret ir = lzma_raw_decoder(&s, f);
		if (ir == LZMA_MEM_ERROR) { lzma_end(&s); count("environment_or_inconclusive"); return; }
		if (ir != LZMA_OK) violation("C03:valid-rejected", "lzma_raw_decoder refuses a valid %s chain (dict %u, lc %u lp %u pb %u, preset dictionary %zu bytes) with %s", l2 ? "LZMA2" : "LZMA1", o.dict_size, o.lc, o.lp, o.pb, pd.size(), drv::retname(ir)); }
	drv::Opts op; op.out_cap = plain.size() + 4096;
	drv::Result L = drv::run(&s, bytes.data(), bytes.size(), sch, op); lzma_end(&s);
	if (L.ret == LZMA_MEM_ERROR) { count("environment_or_inconclusive"); return; }
	if (L.ret != LZMA_STREAM_END) violation("C03:valid-rejected", "synthesised valid raw %s stream rejected with %s after %llu of %zu bytes, %zu of %zu bytes out", l2 ? "LZMA2" : "LZMA1", drv::retname(L.ret), (unsigned long long)L.total_in, bytes.size(), L.out.size(), plain.size());
	if (L.out != plain) { size_t d = 0; while (d < L.out.size() && d < plain.size() && L.out[d] == plain[d]) ++d; violation("C03:different-bytes", "synthesised raw stream decodes to %zu bytes, by construction %zu, first difference at %zu", L.out.size(), plain.size(), d); }
	for (auto &kv : feat) count("feat_" + kv.first, 1);
	if (!pd.empty()) count("feat_preset_dictionary");
	// mutation, judged by the reference raw decoders (the expensive symbol: input that ends inside it, or a flipped bit in it)
	if (is_adv || c.rare(120)) { std::vector<uint8_t> dmg = bytes; std::string mut;
		if (is_adv && c.chance(170)) { size_t at = adv.e_first - 2 + c.u(24); if (c.flag() && at < dmg.size()) { dmg[at] ^= (uint8_t)(1u << c.u(8)); mut = "flip-inside-expensive-symbol"; } else { dmg.resize(std::min(dmg.size(), at)); mut = "truncate-inside-expensive-symbol"; } }
		else mut = cm::mutate(c, dmg);
		if (mut != "none") {
		std::vector<uint8_t> rout; int rst; std::string rule = "raw data";
		if (l2) { ref::Lzma2Result R = ref::lzma2_decode(dmg.data(), dmg.size(), o.dict_size, rout, pd.data(), pd.size(), plain.size() + (1u << 20)); rst = R.status; }
		else { bool ext = f[0].id == LZMA_FILTER_LZMA1EXT; uint64_t sz = ext ? (((uint64_t)o.ext_size_high << 32) | o.ext_size_low) : UINT64_MAX; bool allow = !ext || (o.ext_flags & LZMA_LZMA1EXT_ALLOW_EOPM) || sz == UINT64_MAX;
			ref::Lzma1Result R = ref::lzma1_decode(dmg.data(), dmg.size(), o.lc, o.lp, o.pb, o.dict_size, sz, allow, rout, pd.data(), pd.size(), plain.size() + (1u << 20)); rst = R.status; }
		lzma_stream s2 = LZMA_STREAM_INIT; s2.allocator = AL(); if (lzma_raw_decoder(&s2, f) != LZMA_OK) harness_bug("raw decoder init");
		drv::Opts o2; o2.out_cap = plain.size() + (1u << 20); drv::Result LM = drv::run(&s2, dmg.data(), dmg.size(), drv::Schedule(), o2); lzma_end(&s2);
		{ std::string &d = g_stats.current; if (!d.empty() && d.back() == '}') { d.pop_back(); d += ",\"mutation\":\"" + mut + "\"}"; } }
		compare(("mutated raw stream (" + mut + ")").c_str(), nullptr, dmg, false, rst, rout, rule, LM); count(rst == ref::RS_OK ? "mutant_still_valid" : "mutant_invalid"); } }
	if (!plain.empty()) nontrivial(hcomb(hash_bytes(bytes.data(), bytes.size()), sch.hash()));
}

// tests/files and their mutations against the reference
static void mode_testfile(Case &c) {
	auto &files = cm::test_files(); if (files.empty()) harness_bug("no tests/files");
	const cm::TestFile &tf = files[c.u((uint32_t)files.size())];
	if (!cm::name_ends(tf.name, ".xz")) { count("skip_non_xz"); return; }
	std::vector<uint8_t> dmg = tf.data; std::string mut = cm::mutate(c, dmg);
	set_desc("{\"mode\":\"testfile\",\"file\":" + jstr(tf.name) + ",\"mutation\":\"" + mut + "\"}");
	bool bcj = cm::name_has(tf.name, "arm64") || cm::name_has(tf.name, "bcj") || cm::name_has(tf.name, "x86");
	ref::XzOpts xo; xo.concatenated = true; xo.out_limit = 2u << 20;
	ref::XzResult X = ref::xz_decode(dmg.empty() ? (const uint8_t *)"" : dmg.data(), dmg.size(), xo);
	lzma_stream s = LZMA_STREAM_INIT; s.allocator = AL(); if (lzma_stream_decoder(&s, UINT64_MAX, LZMA_CONCATENATED) != LZMA_OK) harness_bug("decoder init");
	drv::Opts o; o.out_cap = 4u << 20; drv::Result L = drv::run(&s, dmg.data(), dmg.size(), drv::Schedule(), o); lzma_end(&s);
	compare(("tests/files " + tf.name + " (" + mut + ")").c_str(), nullptr, dmg, bcj, X.status, X.out, X.rule, L);
	count(X.ok() ? "testfile_valid" : "testfile_invalid");
	if (X.in_used > 12 || X.ok()) nontrivial(hash_bytes(dmg.data(), dmg.size()));
}

extern "C" int LLVMFuzzerTestOneInput(const uint8_t *data, size_t size) {
	begin_case("C03");
	Case c(data, size);
	unsigned m = c.u(8);
	if (m < 4) mode_stream(c); else if (m < 6) mode_raw(c); else mode_testfile(c);
	return 0;
}
