// c14_big.cc - C14: SHA-256 of a message longer than 2^32 bits (512 MiB), where the bit count no longer fits the low word of the
// 64-bit length field of the padding.  The integrity-check code is only reachable through the Block/Stream coders, so the message is
// streamed through lzma_stream_encoder (LZMA_CHECK_SHA256); the 32-byte Check field is located in the produced Stream with the
// independent VLI parser (footer -> Backward Size -> Index -> Unpadded Size) and compared with ref/sha256.h fed the same bytes.
// A second, shorter message (2^29 - 1 bytes: just below the boundary) is checked the same way.
// usage: c14_big [MiB above 512, default 1] [both] ; prints one JSON line; exit 0 ok, 1 violation, 2 harness problem.
#include <lzma.h>
#include <stdio.h>
#include <stdlib.h>
#include <string.h>
#include <stdint.h>
#include <vector>
#include "ref/sha256.h"
#include "ref/xzparse.h"

static int one(uint64_t total, const char *label) {
	lzma_options_lzma o; if (lzma_lzma_preset(&o, 0)) return 2; o.dict_size = 1u << 16;
	lzma_filter f[2] = {{LZMA_FILTER_LZMA2, &o}, {LZMA_VLI_UNKNOWN, NULL}};
	lzma_stream e = LZMA_STREAM_INIT; if (lzma_stream_encoder(&e, f, LZMA_CHECK_SHA256) != LZMA_OK) return 2;
	std::vector<uint8_t> in(1u << 20, 0), out; out.reserve(1u << 20); std::vector<uint8_t> ob(1u << 16);
	ref::Sha256 h; uint64_t fed = 0; lzma_ret r = LZMA_OK; uint32_t stamp = 0;
	while (r == LZMA_OK) {
		lzma_action a = LZMA_RUN;
		if (e.avail_in == 0 && fed < total) { size_t n = (size_t)((total - fed) < in.size() ? (total - fed) : in.size()); ++stamp; memcpy(in.data() + 1000, &stamp, 4); /* not all zero */ h.update(in.data(), n); e.next_in = in.data(); e.avail_in = n; fed += n; }
		if (fed == total) a = LZMA_FINISH;
		e.next_out = ob.data(); e.avail_out = ob.size(); r = lzma_code(&e, a); out.insert(out.end(), ob.data(), ob.data() + (ob.size() - e.avail_out));
	}
	lzma_end(&e);
	if (r != LZMA_STREAM_END) { printf("{\"ok\":false,\"what\":\"%s: encoder returned %d\"}\n", label, (int)r); return 1; }
	uint8_t want[32]; h.finish(want);
	const size_t n = out.size(); if (n < 12 + 12 + 8 || out[n - 2] != 'Y' || out[n - 1] != 'Z') { printf("{\"ok\":false,\"what\":\"%s: no Stream Footer\"}\n", label); return 1; }
	const uint64_t backward = ((uint64_t)ref::rd32(out.data() + n - 8) + 1) * 4; if (backward + 24 > n) return 2;
	size_t pos = n - 12 - (size_t)backward; if (out[pos++] != 0x00) return 2;
	uint64_t count, unpadded, unc; if (ref::vli_decode(out.data(), n, pos, count) || count != 1 || ref::vli_decode(out.data(), n, pos, unpadded) || ref::vli_decode(out.data(), n, pos, unc)) return 2;
	if (unc != total || 12 + unpadded > n || unpadded < 32) { printf("{\"ok\":false,\"what\":\"%s: Index says %llu uncompressed bytes, fed %llu\"}\n", label, (unsigned long long)unc, (unsigned long long)total); return 1; }
	// Block = Header | Compressed Data | Block Padding (to a multiple of 4) | Check; Unpadded Size excludes the padding
	const size_t check_off = 12 + (((size_t)unpadded - 32 + 3) & ~(size_t)3); if (check_off + 32 > n) return 2;
	const uint8_t *got = out.data() + check_off;
	if (memcmp(got, want, 32) != 0) {
		char a[65], b[65]; for (int i = 0; i < 32; ++i) { snprintf(a + 2 * i, 3, "%02x", got[i]); snprintf(b + 2 * i, 3, "%02x", want[i]); }
		printf("{\"ok\":false,\"signature\":\"C14:check-field-sha256\",\"what\":\"%s: Check field of a %llu-byte Block is %s, SHA-256 by FIPS 180-4 is %s\"}\n", label, (unsigned long long)total, a, b); return 1; }
	return 0;
}

int main(int argc, char **argv) {
	const uint64_t above = (uint64_t)(argc > 1 ? atoi(argv[1]) : 1) << 20;
	const bool both = argc > 2 && !strcmp(argv[2], "both"); int r = 0;
	if (both) { r = one((1ull << 29) - 1, "2^29-1 bytes (bit count just fits 32 bits)"); if (r) return r; }
	r = one((1ull << 29) + above + 12345, "more than 2^29 bytes (bit count needs 33+ bits)"); if (r) return r;
	printf("{\"ok\":true,\"messages\":%d,\"longest_bytes\":%llu}\n", both ? 2 : 1, (unsigned long long)((1ull << 29) + above + 12345));
	return 0;
}
