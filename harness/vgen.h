// vgen.h - case decoder, PRNG, input recipes, stats + samples, violation().
// Shared by every libFuzzer target under /verif/harness.
//
// A *case* is a byte string.  Every random decision of a target is drawn
// from it through Case, so that a case is a pure function of its bytes:
// replay = run the binary on the file; shrinking = delete / zero bytes.
// When the bytes run out every draw returns 0 (the "simplest" choice).
#pragma once
#include <stdint.h>
#include <stddef.h>
#include <stdio.h>
#include <stdlib.h>
#include <string.h>
#include <stdarg.h>
#include <string>
#include <vector>
#include <map>
#include <set>
#include <algorithm>
#include <unistd.h>

namespace vg {

// ---------------------------------------------------------------- hashing
static inline uint64_t mix64(uint64_t z) {
	z += 0x9E3779B97F4A7C15ull;
	z = (z ^ (z >> 30)) * 0xBF58476D1CE4E5B9ull;
	z = (z ^ (z >> 27)) * 0x94D049BB133111EBull;
	return z ^ (z >> 31);
}
static inline uint64_t hash_bytes(const void *p, size_t n, uint64_t h = 0x1234567) {
	const uint8_t *b = (const uint8_t *)p;
	// FNV-1a 64 followed by a mixer; good enough for distinct counting.
	uint64_t x = 0xcbf29ce484222325ull ^ h;
	for (size_t i = 0; i < n; ++i) { x ^= b[i]; x *= 0x100000001b3ull; }
	return mix64(x);
}
static inline uint64_t hcomb(uint64_t a, uint64_t b) { return mix64(a ^ (b + 0x9E3779B97F4A7C15ull + (a << 6) + (a >> 2))); }

// ---------------------------------------------------------------- PRNG (splitmix64)
struct Rng {
	uint64_t s;
	explicit Rng(uint64_t seed = 1) : s(seed) {}
	uint64_t next() { s += 0x9E3779B97F4A7C15ull; uint64_t z = s;
		z = (z ^ (z >> 30)) * 0xBF58476D1CE4E5B9ull;
		z = (z ^ (z >> 27)) * 0x94D049BB133111EBull; return z ^ (z >> 31); }
	uint32_t below(uint32_t n) { return n ? (uint32_t)(next() % n) : 0; }
	uint8_t byte() { return (uint8_t)next(); }
};

// ---------------------------------------------------------------- case decoder
struct Case {
	const uint8_t *d; size_t n; size_t pos;
	Case(const uint8_t *data, size_t size) : d(data), n(size), pos(0) {}
	bool empty() const { return pos >= n; }
	size_t left() const { return pos < n ? n - pos : 0; }
	uint8_t byte() { return pos < n ? d[pos++] : 0; }
	uint32_t u16() { uint32_t a = byte(); return a | (byte() << 8); }
	uint32_t u32() { uint32_t a = u16(); return a | (u16() << 16); }
	uint64_t u64() { uint64_t a = u32(); return a | ((uint64_t)u32() << 32); }
	// uniform-ish choice in [0, k)
	uint32_t u(uint32_t k) {
		if (k <= 1) return 0;
		if (k <= 256) return byte() % k;
		if (k <= 65536) return u16() % k;
		return u32() % k;
	}
	// inclusive range
	uint32_t range(uint32_t lo, uint32_t hi) { return lo + u(hi - lo + 1); }
	bool flag() { return byte() & 1; }
	// true with probability ~ num/256 (note: exhausted/zero bytes => true)
	bool chance(unsigned num) { return byte() < num && num; }
	// same probability, but exhausted/zero bytes => false: use for options whose absence is the plain case
	bool rare(unsigned num) { return num && byte() >= 256 - (num > 256 ? 256 : num); }
	template <class T> T pick(std::initializer_list<T> l) {
		uint32_t i = u((uint32_t)l.size()); return *(l.begin() + i); }
	// length on a log scale: one byte selects an exponent class, more bytes
	// the mantissa; 0 => 0.  max is honoured.
	uint32_t len_exp(uint32_t max) {
		uint8_t b = byte();
		if (b == 0 || max == 0) return 0;
		unsigned bits = 0; while ((1u << bits) < max && bits < 31) ++bits; // bits to cover max
		unsigned e = (b % (bits + 1));            // exponent 0..bits
		uint32_t lo = e ? (1u << (e - 1)) : 0, hi = (1u << e);
		uint32_t v = lo + (hi > lo ? u(hi - lo) : 0) + ((b >> 7) & 1 ? 0 : 0);
		if (v == 0) v = 1;
		return v > max ? max : v;
	}
	// small numbers are common: 0..3 mostly, sometimes up to max
	uint32_t small(uint32_t max) {
		uint8_t b = byte();
		if (b < 160) return std::min<uint32_t>(b & 3, max);
		if (b < 230) return std::min<uint32_t>(b & 15, max);
		return u(max + 1);
	}
	std::vector<uint8_t> blob(size_t len) {
		std::vector<uint8_t> v(len);
		for (size_t i = 0; i < len; ++i) v[i] = byte();
		return v;
	}
	std::vector<uint8_t> rest() {
		std::vector<uint8_t> v(d + std::min(pos, n), d + n); pos = n; return v; }
};

// ---------------------------------------------------------------- input recipes
// A recipe expands into plaintext bytes through a PRNG seeded from the case,
// so big inputs cost a few case bytes.
enum RecipeKind { RK_RANDOM, RK_CONST, RK_SHORT_PERIOD, RK_LONG_PERIOD, RK_TEXT,
	RK_ZERO_RUNS, RK_COPY_EDITS, RK_LITERAL, RK_MIXED, RK_NKINDS };
static const char *const recipe_names[] = {"random", "const", "short_period", "long_period",
	"text", "zero_runs", "copy_edits", "literal", "mixed"};

struct Recipe {
	int kind = RK_CONST; uint32_t len = 0; uint32_t period = 1; uint32_t alpha = 256; uint64_t seed = 0;
	std::vector<uint8_t> lit;
	std::string describe() const {
		char b[160]; snprintf(b, sizeof b, "{\"kind\":\"%s\",\"len\":%u,\"period\":%u,\"alpha\":%u,\"seed\":%llu}",
			recipe_names[kind], len, period, alpha, (unsigned long long)(seed & 0xffffffff)); return b; }
	uint64_t hash() const { uint64_t h = hcomb(kind, len); h = hcomb(h, period); h = hcomb(h, alpha); h = hcomb(h, seed);
		if (!lit.empty()) h = hcomb(h, hash_bytes(lit.data(), lit.size())); return h; }
};

static inline Recipe draw_recipe(Case &c, uint32_t maxlen, uint32_t period_hint = 0) {
	Recipe r;
	r.kind = c.u(RK_NKINDS);
	r.len = c.len_exp(maxlen);
	r.seed = c.u32();
	uint8_t a = c.byte();
	r.alpha = (a < 64) ? 2 + (a & 3) : (a < 128 ? 16 : (a < 192 ? 64 : 256));
	uint32_t p = c.u16();
	switch (r.kind) {
	case RK_SHORT_PERIOD: r.period = 1 + (p % 300); break;
	case RK_LONG_PERIOD: {
		uint32_t base = period_hint ? period_hint : 4096;
		int32_t d = (int32_t)(p % 65) - 32;           // around the hint
		int64_t v = (int64_t)base + d; if (p & 0x8000) v = (int64_t)base * 2 + d;
		if (v < 1) v = 1; r.period = (uint32_t)v; break; }
	default: r.period = 1 + p; break;
	}
	if (r.kind == RK_LITERAL) { uint32_t l = std::min<uint32_t>(r.len, 256); r.lit = c.blob(l); r.len = l; }
	return r;
}

static inline void expand_into(const Recipe &r, std::vector<uint8_t> &out) {
	Rng g(r.seed * 0x9E3779B97F4A7C15ull + 77);
	size_t base = out.size(); out.resize(base + r.len);
	if (r.len == 0) return;
	uint8_t *o = out.data() + base; uint32_t n = r.len;
	auto sym = [&]() -> uint8_t { return (uint8_t)(r.alpha >= 256 ? g.byte() : (r.alpha <= 5 ? "ab\n \0"[g.below(r.alpha)] : 32 + g.below(r.alpha))); };
	switch (r.kind) {
	case RK_RANDOM: for (uint32_t i = 0; i < n; ++i) o[i] = g.byte(); break;
	case RK_CONST: memset(o, (int)(r.seed & 0xff), n); break;
	case RK_SHORT_PERIOD: case RK_LONG_PERIOD: {
		uint32_t p = std::max<uint32_t>(1, r.period);
		for (uint32_t i = 0; i < n && i < p; ++i) o[i] = sym();
		for (uint32_t i = p; i < n; ++i) o[i] = o[i - p];
		// sprinkle a few edits so that matches end
		uint32_t edits = n / 997; for (uint32_t e = 0; e < edits; ++e) o[g.below(n)] ^= (uint8_t)(1 + g.below(255));
		break; }
	case RK_TEXT: {
		static const char *words[] = {"the ", "quick ", "brown ", "fox ", "jumps ", "over ", "lazy ", "dog\n", "lzma ", "xz ", "0123456789 ", "\n"};
		uint32_t i = 0; while (i < n) { const char *w = words[g.below(12)]; size_t l = strlen(w);
			for (size_t k = 0; k < l && i < n; ++k) o[i++] = (uint8_t)w[k]; }
		break; }
	case RK_ZERO_RUNS: {
		uint32_t i = 0; bool z = g.below(2);
		while (i < n) { uint32_t run = 1 + g.below(r.period); if (g.below(8) == 0) run += g.below(20000);
			for (uint32_t k = 0; k < run && i < n; ++k) o[i++] = z ? 0 : sym(); z = !z; }
		break; }
	case RK_COPY_EDITS: {
		uint32_t i = 0;
		while (i < n) {
			if (i < 16 || g.below(4) == 0) { uint32_t run = 1 + g.below(40); for (uint32_t k = 0; k < run && i < n; ++k) o[i++] = sym(); }
			else { uint32_t dist = 1 + g.below(std::min<uint32_t>(i, std::max<uint32_t>(1, r.period * 16)));
				uint32_t run = 2 + g.below(300); for (uint32_t k = 0; k < run && i < n; ++k, ++i) o[i] = o[i - dist]; }
		}
		break; }
	case RK_LITERAL: for (uint32_t i = 0; i < n; ++i) o[i] = i < r.lit.size() ? r.lit[i] : 0; break;
	case RK_MIXED: default: {
		uint32_t i = 0;
		while (i < n) { uint32_t seg = 1 + g.below(std::max<uint32_t>(2, n / 3 + 1)); int k = g.below(3);
			uint8_t cst = g.byte();
			for (uint32_t j = 0; j < seg && i < n; ++j, ++i) o[i] = k == 0 ? g.byte() : (k == 1 ? cst : (i >= 7 ? o[i - 7] : sym())); }
		break; }
	}
}
static inline std::vector<uint8_t> expand(const Recipe &r) { std::vector<uint8_t> v; expand_into(r, v); return v; }

// ---------------------------------------------------------------- stats
// Each process writes one JSON line to $VERIF_STATS (append) at exit, before a
// trap, and every 4096 evaluations (the orchestrator keeps the last line per pid).
struct Stats {
	const char *prop = "C??";
	uint64_t evals = 0, nontrivial = 0;
	std::map<std::string, uint64_t> cls;
	std::set<uint64_t> distinct;          // hashes of non-trivial case keys
	std::vector<std::pair<uint64_t, std::string>> samples; // (hash, description)
	std::string current;                  // description of the running case (for violation())
	bool registered = false;
	size_t max_distinct = 4000000;
	// full = include the list of distinct-case hashes (written at exit / before a trap); the periodic flush every 4096
	// cases writes only the count, so that a killed process still leaves its counters behind without O(n^2) I/O
	void flush(bool full = true) {
		const char *path = getenv("VERIF_STATS");
		if (!path || !*path) return;
		std::string s = "{\"pid\":" + std::to_string((long)getpid()) + ",\"prop\":\"" + prop + "\",\"evals\":" + std::to_string(evals)
			+ ",\"nontrivial\":" + std::to_string(nontrivial) + ",\"classes\":{";
		bool first = true;
		for (auto &kv : cls) { if (!first) s += ","; first = false; s += "\"" + kv.first + "\":" + std::to_string(kv.second); }
		s += "},\"samples\":[";
		first = true;
		for (auto &sm : samples) { if (!first) s += ","; first = false; s += sm.second; }
		s += "],\"distinct_count\":" + std::to_string(distinct.size()) + ",\"distinct\":[";
		first = true; char hb[24];
		if (full) for (uint64_t h : distinct) { if (!first) s += ","; first = false; snprintf(hb, sizeof hb, "\"%llx\"", (unsigned long long)h); s += hb; }
		s += "]}\n";
		// one file per process, rewritten atomically (concurrent appends of long lines would interleave)
		std::string fn = std::string(path) + "." + std::to_string((long)getpid()), tmp = fn + ".tmp";
		FILE *f = fopen(tmp.c_str(), "w"); if (!f) return;
		fwrite(s.data(), 1, s.size(), f); fclose(f); rename(tmp.c_str(), fn.c_str());
	}
};
static Stats g_stats;
static void stats_atexit() { g_stats.flush(); }

static inline void begin_case(const char *prop) {
	if (!g_stats.registered) { g_stats.registered = true; g_stats.prop = prop; atexit(stats_atexit); }
	++g_stats.evals;
	g_stats.current.clear();
	static uint64_t cases = 0;          // (evals may be advanced by targets that execute a case several times, so it is not the flush clock)
	if ((++cases & 4095) == 0) g_stats.flush(false);
}
static inline void count(const char *k, uint64_t n = 1) { g_stats.cls[k] += n; }
static inline void count(const std::string &k, uint64_t n = 1) { g_stats.cls[k] += n; }
static bool g_verbose = getenv("VERIF_VERBOSE") != nullptr;
static inline void set_desc(const std::string &d) { g_stats.current = d; if (g_verbose) fprintf(stderr, "=== case: %s\n", d.c_str()); }
// Mark the running case non-trivial with a distinctness key.  desc must be a JSON value.
static inline void nontrivial(uint64_t key) {
	++g_stats.nontrivial;
	bool isnew = false;
	if (g_stats.distinct.size() < g_stats.max_distinct) isnew = g_stats.distinct.insert(key).second;
	if (isnew && !g_stats.current.empty()) {
		// keep the first 3 and the 5 with smallest hash: deterministic, spread
		auto &S = g_stats.samples;
		if (S.size() < 8) S.push_back({key, g_stats.current});
		else { size_t worst = 3; for (size_t i = 3; i < S.size(); ++i) if (S[i].first > S[worst].first) worst = i;
			if (key < S[worst].first) S[worst] = {key, g_stats.current}; }
	}
}


// A semantic violation: print, flush, trap (libFuzzer then saves crash-<sha1>).
__attribute__((format(printf, 2, 3), noreturn))
static inline void violation(const char *sig, const char *fmt, ...) {
	fflush(stdout);
	fprintf(stderr, "\n=== VERIF-VIOLATION property=%s signature=%s\n=== reason: ", g_stats.prop, sig);
	va_list ap; va_start(ap, fmt); vfprintf(stderr, fmt, ap); va_end(ap);
	fprintf(stderr, "\n=== case: %s\n", g_stats.current.c_str());
	fflush(stderr);
	count(std::string("violation:") + sig);
	g_stats.flush();
	__builtin_trap();
}
// The harness itself is wrong (driver protocol error etc.): distinct exit path.
__attribute__((format(printf, 1, 2), noreturn))
static inline void harness_bug(const char *fmt, ...) {
	fprintf(stderr, "\n=== VERIF-HARNESS-BUG property=%s: ", g_stats.prop);
	va_list ap; va_start(ap, fmt); vfprintf(stderr, fmt, ap); va_end(ap);
	fprintf(stderr, "\n=== case: %s\n", g_stats.current.c_str());
	g_stats.flush();
	_exit(97);
}

// known findings: the orchestrator passes the signatures that are listed as
// "finding" in known_findings.json through VERIF_KNOWN (comma separated).  A
// target that meets such a signature counts it and carries on.
static inline bool known_finding(const char *sig) {
	static std::set<std::string> known; static bool init = false;
	if (!init) { init = true; const char *e = getenv("VERIF_KNOWN"); if (e) { std::string s(e), cur;
		for (char ch : s) { if (ch == ',') { if (!cur.empty()) known.insert(cur); cur.clear(); } else cur += ch; }
		if (!cur.empty()) known.insert(cur); } }
	if (known.count(sig)) { count(std::string("excluded_known:") + sig); return true; }
	return false;
}

static inline std::string hex(const uint8_t *p, size_t n, size_t max = 48) {
	static const char *d = "0123456789abcdef"; std::string s;
	for (size_t i = 0; i < n && i < max; ++i) { s += d[p[i] >> 4]; s += d[p[i] & 15]; }
	if (n > max) s += "..";
	return s;
}
static inline std::string jstr(const std::string &s) {
	std::string o = "\"";
	for (unsigned char ch : s) { if (ch == '"' || ch == '\\') { o += '\\'; o += (char)ch; } else if (ch < 32 || ch > 126) { char b[8]; snprintf(b, sizeof b, "\\u%04x", ch); o += b; } else o += (char)ch; }
	return o + "\"";
}

} // namespace vg
